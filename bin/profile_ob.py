"""Developer aid: run one obligation in-process with per-query timing.

usage: .pvc-venv/bin/python bin/profile_ob.py <PROP> <obligation-name-substring> [max_paths]
"""
import importlib
import os
import sys
import time

sys.path.insert(0, os.path.dirname(os.path.dirname(os.path.abspath(__file__))))
import z3  # noqa: E402

from pvc.engine import Harness, run_obligation  # noqa: E402
from pvc.sym import Ctx  # noqa: E402

mod = importlib.import_module(f"contracts.{sys.argv[1]}")
obs = [o for o in mod.obligations() if sys.argv[2] in o.name]
ob = obs[0]
if len(sys.argv) > 3:
    ob.max_paths = int(sys.argv[3])
orig = Harness._check_sym


def timed(self, name, cond, note):
    t = time.time()
    orig(self, name, cond, note)
    print(f"check {name}: {self.results[-1][1]} {time.time() - t:.2f}s decisions={len(self.ctx.trail)}", flush=True)


Harness._check_sym = timed
od = Ctx.decide


def dec(self, cond):
    t = time.time()
    r = od(self, cond)
    dt = time.time() - t
    if dt > 0.5:
        print(f"  decide slow {dt:.2f}s {str(z3.simplify(cond))[:150]!r}", flush=True)
    return r


Ctx.decide = dec
import json
known = json.load(open(os.path.join(os.path.dirname(os.path.dirname(os.path.abspath(__file__))), 'known_findings.json')))['findings']
r = run_obligation(ob, known)
print(r["status"], r.get("stats"), r["undecided"][:2], r["violations"][:2], r.get("message", ""))
