"""C01 -- direct-integration energy targets equal the exact thermodynamic minimum.

Reference (the property's own definition, written over the streams only):
    ov_s(T)  = max(0, hi_s - max(lo_s, T))              heat-carrying span of stream s above the shifted temperature T
    D(T)     = sum_cold CP_s ov_s(T) - sum_hot CP_s ov_s(T)    net heat deficit above T
    Qh = max(0, max_k D(T_k)) over all shifted stream bounds T_k,  Qc = Qh - sum Q_cold + sum Q_hot,  Qr = sum Q_hot - Qc

Preconditions carried by every cascade obligation (DESIGN 2.6):
    ONGRID  every temperature and contribution is a multiple of 1e-6 (6-dp rounding of the grid builder is the identity)
    SEP     two shifted bounds are either equal or more than 1e-5 = 10*tol apart (the activity window of the CP summation)
"""
from __future__ import annotations

import OpenPinch.analysis.problem_table_analysis as pta
from OpenPinch.classes.stream import Stream
from OpenPinch.classes.stream_collection import StreamCollection
from pvc.engine import Obligation, split
from pvc.sym import And, Implies, Not, Or, smax, smin

from .shared import COLD, HOT, PT, tol

LEVEL = "exploration"
LEVEL_TEXT = ("Bounded symbolic execution of the real composed slice Stream() -> StreamCollection -> create_problem_table_with_t_int -> "
              "_sum_mcp_between_temperature_boundaries -> problem_table_algorithm -> set_zonal_targets on 1..2 (quick) / 3 (thorough) streams with every "
              "temperature, duty and contribution symbolic (all coincidence/nesting patterns of that size), compared with the property's own cascade; "
              "clauses proved per path by z3 (non-linear real arithmetic). Complete within the bound, under ONGRID and SEP.")
ASSUMPTIONS = ["ONGRID: stream temperatures and contributions are multiples of 1e-6", "SEP: distinct shifted bounds differ by more than 1e-5 (recorded finding KF-C01-unseparated otherwise)",
               "stream duties are non-negative (schema)"]


def mk_streams(h, m, prefix="s", cp_values=None, kinds=("hot", "cold", "latent")):
    """m process streams built by the real constructor from symbolic (t_supply, t_target, heat_flow, dt_cont).

    The duty is parametrised as cp * span with cp > 0 symbolic (every positive duty is of that form), which keeps the
    heat-capacity flow rate the constructor derives (duty / span) a plain symbol instead of a quotient."""
    h.ongrid_mode(6)
    out = []
    for i in range(m):
        ts = h.real(f"{prefix}{i}_ts", grid=6)
        tt = h.real(f"{prefix}{i}_tt", grid=6)
        if cp_values is None:
            cp = h.real(f"{prefix}{i}_cp")
            h.assume(cp > 0)
        else:
            # heat-capacity flow rate drawn from a small concrete set: every obligation is then linear real arithmetic
            cp = h.choice(f"{prefix}{i}_cpv", list(cp_values))
        dt = h.real(f"{prefix}{i}_dt", lo=0, grid=6)
        d = h.choice(f"{prefix}{i}_dir", list(kinds))
        if d == "hot":
            h.assume(ts > tt)
            q = cp * (ts - tt)
        elif d == "cold":
            h.assume(ts < tt)
            q = cp * (tt - ts)
        elif d == "latent":
            h.assume(ts == tt)
            q = _exact(h, cp) * 0.01
        else:
            # "latent_hot": an isothermal stream whose NEGATIVE duty marks it as a hot (condensing) stream of that magnitude
            h.assume(ts == tt)
            q = -(_exact(h, cp) * 0.01)
        s = Stream(f"{prefix}{i}", ts, tt, dt_cont=dt, heat_flow=q, htc=1.0)
        # what the INPUT means, for the reference cascade (independent of what the constructor stored)
        s._pvc_kind = HOT if d in ("hot", "latent_hot") else COLD
        s._pvc_duty = -q if d == "latent_hot" else q
        out.append(s)
    return out


def assume_sep(h, streams, finding="KF-C01-unseparated", star=True):
    bs = []
    for s in streams:
        bs += [s.t_min_star, s.t_max_star] if star else [s.t_min, s.t_max]
    close = []
    for i in range(len(bs)):
        for j in range(i):
            d = abs(bs[i] - bs[j])
            close.append(And(d > 0, d <= 1e-5))
    h.exclude_known(finding, Or(*close) if close else False)
    if finding is None:
        h.assume(Not(Or(*close)) if close else True)
    return bs


def _exact(h, v):
    """a concrete number as an exact rational term in symbolic mode: sums of concrete duties must not be rounded by float arithmetic
    inside the harness (0.03 - 0.01 is not 0.02 in floats)"""
    if h.symbolic and not hasattr(v, "z"):
        import z3
        from pvc.sym import SymReal
        return SymReal(z3.RealVal(repr(float(v))))
    return v


def _duty(s):
    return getattr(s, "_pvc_duty", s.heat_flow)


def _kind(s):
    return getattr(s, "_pvc_kind", s.type)


def split_kinds(streams):
    hot, cold, allc = StreamCollection(), StreamCollection(), StreamCollection()
    for s in streams:
        (hot if s.type == HOT else cold).add(s)
        allc.add(s)
    return hot, cold, allc


def reference(streams, star=True):
    """The exact cascade of the property statement, over the streams only."""
    def lo(s): return s.t_min_star if star else s.t_min
    def hi(s): return s.t_max_star if star else s.t_max

    def ov(s, T):
        return smax(0.0, hi(s) - smax(lo(s), T))

    def D(T):
        tot = 0.0
        for s in streams:
            cp = _duty(s) / (hi(s) - lo(s))
            tot = tot + (cp * ov(s, T) if _kind(s) == COLD else -cp * ov(s, T))
        return tot
    bounds = [b for s in streams for b in (lo(s), hi(s))]
    Qh = smax([0.0] + [D(T) for T in bounds])
    q_hot = sum([_duty(s) for s in streams if _kind(s) == HOT], 0.0)
    q_cold = sum([_duty(s) for s in streams if _kind(s) == COLD], 0.0)
    Qc = Qh - q_cold + q_hot
    Qr = q_hot - Qc
    return Qh, Qc, Qr, q_hot, q_cold


def deficit_above(streams, T, star=True):
    """D(T): net heat deficit above the (shifted) temperature T -- the property's own definition.

    max() is Python's: the branches are resolved by the path condition (rows are ordered), which leaves the
    solver a polynomial identity instead of nested if-then-else terms."""
    tot = 0.0
    for s in streams:
        lo, hi = (s.t_min_star, s.t_max_star) if star else (s.t_min, s.t_max)
        base = lo if lo > T else T
        ov = hi - base
        if ov < 0:
            ov = 0.0
        cp = _duty(s) / (hi - lo)
        tot = tot + (cp * ov if _kind(s) == COLD else -cp * ov)
    return tot


def _ob_slice(mmax, cp_values=None, kinds=("hot", "cold", "latent")):
    def ob(h):
        m = h.choice("streams", list(range(1, mmax + 1)))
        streams = mk_streams(h, m, cp_values=cp_values, kinds=kinds)
        for st in streams:
            h.check("stream_is_classified_as_the_input_says", st.type == _kind(st))
        bounds = assume_sep(h, streams)
        hot, cold, allc = split_kinds(streams)
        # modular: the constant-enthalpy projection only inserts rows strictly inside the table (C05.projection.b) and an
        # insertion changes no curve value on existing rows (C08), so the first/last-row read-out is unaffected
        h.stub(pta, "_insert_temperature_interval_into_pt_at_constant_h", lambda pt: pt)
        pt = pta.get_process_heat_cascade(hot_streams=hot, cold_streams=cold, all_streams=allc, zone_config=None, is_shifted=True)
        tv = pta.set_zonal_targets(pt, pt)
        n = len(pt)
        T = [pt.loc[k, PT.T.value] for k in range(n)]
        Hn = [pt.loc[k, PT.H_NET.value] for k in range(n)]
        q_hot = sum([_duty(s) for s in streams if _kind(s) == HOT], 0.0)
        q_cold = sum([_duty(s) for s in streams if _kind(s) == COLD], 0.0)
        # (0) the grid is exactly the set of shifted stream bounds
        for b in bounds:
            h.check("every_shifted_bound_is_a_row", Or(*[b == t for t in T]))
        for t in T:
            h.check("every_row_is_a_shifted_bound", Or(*[t == b for b in bounds]))
        for k in range(n - 1):
            h.check("rows_strictly_descending", T[k] > T[k + 1])
        # (1) row by row, the cascade holds the exact net deficit above that temperature
        D = [deficit_above(streams, T[k]) for k in range(n)]
        for k in range(n):
            h.check("residual_is_exact_deficit_above_row", h.eq(Hn[0] - Hn[k], D[k]))
        h.check("deficit_above_bottom_row_is_net_duty", h.eq(D[n - 1], q_cold - q_hot))
        h.check("hot_curve_spans_hot_duty", h.eq(pt.loc[0, PT.H_HOT.value], q_hot))
        # (2) pinched: residual non-negative with a zero
        h.check("residual_non_negative", And(*[x >= 0 for x in Hn]))
        h.check("residual_touches_zero", Or(*[x == 0 for x in Hn]))
        # (3) the property's statement, from (0)-(2) alone (the definitions of D and of the residual stay opaque)
        Qh_ref = smax([0.0] + D)
        Qc_ref = Qh_ref - q_cold + q_hot
        Qr_ref = q_hot - Qc_ref
        op = (D + Hn + [q_hot, q_cold, pt.loc[0, PT.H_HOT.value]]) if h.symbolic else ()
        h.check("Qh_is_largest_deficit_or_zero", h.eq(tv["hot_utility_target"], Qh_ref), opaque=op)
        h.check("Qc_closes_the_balance", h.eq(tv["cold_utility_target"], Qc_ref), opaque=op)
        h.check("Qr_is_hot_duty_minus_Qc", h.eq(tv["heat_recovery_target"], Qr_ref), opaque=op)
        h.check("targets_non_negative", And(tv["hot_utility_target"] >= 0, tv["cold_utility_target"] >= 0), opaque=op)
    return ob


def ob_di_readout(h):
    """compute_direct_integration_targets with every callee replaced by its contract: what ends up on the direct-integration record
    is read from the cascade tables AS COMPUTED (before anything rounds or extends them)."""
    from types import SimpleNamespace
    import OpenPinch.analysis.direct_integration_entry as di
    from OpenPinch.classes.problem_table import ProblemTable
    from OpenPinch.lib.enums import TargetType
    from pvc.engine import ReplayMismatch
    if not h.symbolic:
        raise ReplayMismatch("modular obligation: callees are contracts, no native replay")
    n = 3
    Ts = [300.0, 150.0, 10.0]
    cols = {}

    def fake_cascade(**k):
        tag = "s" if k.get("is_shifted") else "r"
        cols[tag] = {c: h.reals(f"{nm}{tag}", n) for c, nm in ((PT.H_HOT.value, "Hh"), (PT.H_COLD.value, "Hc"), (PT.H_NET.value, "Hn"))}
        cols["known_" + tag] = k.get("known_heat_recovery")
        return ProblemTable({PT.T.value: list(Ts), **{c: list(v) for c, v in cols[tag].items()}})
    recorded = {}
    cfg = SimpleNamespace(DO_VERTICAL_GCC=False, DO_ASSITED_HT=False, DO_BALANCED_CC=h.choice("balanced_curves", [False, True]), DO_AREA_TARGETING=False)
    zone = SimpleNamespace(name="Z", config=cfg, identifier="Site", hot_streams=StreamCollection(), cold_streams=StreamCollection(), all_streams=StreamCollection(),
                           hot_utilities=StreamCollection(), cold_utilities=StreamCollection(), net_hot_streams=None, net_cold_streams=None,
                           add_target_from_results=lambda tid, res: recorded.__setitem__(tid, res))
    th, tc = h.real("hot_pinch"), h.real("cold_pinch")
    h.stub(di, "get_process_heat_cascade", fake_cascade)
    pinch_seen = []

    def pinch_stub(self, *a, **k):
        # the pinch is a statement about the cascade AS COMPUTED: record what the table holds at the moment it is asked
        pinch_seen.append((list(self.col[PT.T.value]), list(self.col[PT.H_NET.value])))
        return (th, tc)
    h.stub(ProblemTable, "pinch_temperatures", pinch_stub)
    h.stub(di, "get_additional_GCCs", lambda pt, **k: pt)
    h.stub(di, "get_utility_targets", lambda *a, **k: None)
    h.stub(di, "get_balanced_CC", lambda *a, **k: {})
    h.stub(di, "_create_net_hot_and_cold_stream_collections_for_site_analysis", lambda *a, **k: (StreamCollection(), StreamCollection()))
    di.compute_direct_integration_targets(zone)
    res = recorded[TargetType.DI.value]
    tv = res["target_values"]
    S, R = cols["s"], cols["r"]
    h.check("real_table_built_for_the_shifted_heat_recovery", h.eq(cols["known_r"], S[PT.H_HOT.value][0] - S[PT.H_NET.value][n - 1]))
    h.check("Qh_is_top_of_the_shifted_residual_as_computed", h.eq(tv["hot_utility_target"], S[PT.H_NET.value][0]))
    h.check("Qc_is_bottom_of_the_shifted_residual_as_computed", h.eq(tv["cold_utility_target"], S[PT.H_NET.value][n - 1]))
    h.check("Qr_is_hot_duty_minus_Qc_as_computed", h.eq(tv["heat_recovery_target"], S[PT.H_HOT.value][0] - S[PT.H_NET.value][n - 1]))
    h.check("recovery_limit_from_the_real_table_as_computed", h.eq(tv["heat_recovery_limit"], R[PT.H_HOT.value][0] - R[PT.H_NET.value][n - 1]))
    h.check("pinches_are_those_of_the_shifted_table", And(h.eq(res["hot_pinch"], th), h.eq(res["cold_pinch"], tc)))
    h.check("pinch_is_asked_once", len(pinch_seen) == 1)
    if pinch_seen:
        Tseen, Hseen = pinch_seen[0]
        h.check("pinch_is_read_from_the_shifted_cascade_as_computed", And(*[h.eq(Hseen[i], S[PT.H_NET.value][i]) for i in range(n)], *[h.eq(Tseen[i], Ts[i]) for i in range(n)]),
                note="the table the pinch is read from must hold the residuals as computed, not after display rounding or any later edit")


def ob_factory(h):
    """FACTORY: the process stream handed to the cascade is the constructor's stream for the request's OWN numbers -- temperatures, duty (with its
    sign: an isothermal stream's direction is read from it), contribution and film coefficient, each given as a plain number, a {value, units}
    dictionary or a ValueWithUnit.  Every attribute the cascade reads is compared with a stream built directly from the symbols."""
    from types import SimpleNamespace
    import OpenPinch.analysis.data_preparation as dp
    from OpenPinch.lib.schema import ValueWithUnit
    ts, tt, q, dt, htc = h.real("ts"), h.real("tt"), h.real("q"), h.real("dt", lo=0), h.real("htc")
    h.assume(htc > 0)
    shape = h.choice("shape", ["sloped", "isothermal"])
    h.assume(ts != tt if shape == "sloped" else ts == tt)
    form = h.choice("given_as", ["number", "dictionary", "value_with_unit"])

    def wrap(v, unit):
        if form == "number":
            return v
        if form == "dictionary":
            return {"value": v, "units": unit}
        return ValueWithUnit.model_construct(value=v, units=unit)      # the real pydantic model, built without validation (validation is C14's / pydantic's)
    rec = SimpleNamespace(name="S", zone="Z", t_supply=wrap(ts, "degC"), t_target=wrap(tt, "degC"), heat_flow=wrap(q, "kW"), dt_cont=wrap(dt, "delta_degC"),
                          htc=wrap(htc, "kW/m2.K"))
    got = dp._create_process_stream(rec)
    want = Stream("S", ts, tt, heat_flow=q, dt_cont=dt, htc=htc, is_process_stream=True)
    h.check("stream_kind_is_the_constructors", got.type == want.type)
    for a in ("t_supply", "t_target", "heat_flow", "dt_cont", "htc", "CP", "t_min", "t_max", "t_min_star", "t_max_star"):
        h.check("stream_attribute_is_the_constructors_for_the_requests_own_numbers", h.eq(getattr(got, a), getattr(want, a)), note=a)
    h.check("marked_as_process_stream", got.is_process_stream is True)


def obligations():
    fs = [Stream.__init__, Stream._update_attributes, pta.get_process_heat_cascade, pta.create_problem_table_with_t_int,
          pta._sum_mcp_between_temperature_boundaries, pta.problem_table_algorithm, pta.get_heat_recovery_target_from_pt, pta.set_zonal_targets]
    exp = ("Qh_is_largest_deficit_or_zero", "Qc_closes_the_balance", "Qr_is_hot_duty_minus_Qc")
    D = ["hot", "cold", "latent"]
    st = ("_insert_temperature_interval_into_pt_at_constant_h (identity on the first/last-row read-out: C05.projection.b + C08)",)
    lin = Obligation("C01.slice.b", _ob_slice(2, cp_values=(1.0, 3.0)), kind="bounded", functions=fs, max_paths=200000, timeout_ms=30000, stubs=st,
                     bound="1..2 streams; every temperature and contribution symbolic, heat-capacity flow rates from {1, 3} kW/K",
                     doc="composed real slice against the property's cascade (linear arithmetic)")
    obs = split(lin, streams=[1]) + split(lin, streams=[2], s0_dir=D, s1_dir=D)
    K4 = ("latent_hot", "hot", "cold", "latent")
    lh = Obligation("C01.slice.latent_hot.b", _ob_slice(2, cp_values=(1.0, 3.0), kinds=K4), kind="bounded", functions=fs, max_paths=200000, timeout_ms=30000, stubs=st,
                    bound="1..2 streams, the first an isothermal stream whose NEGATIVE duty marks it as hot; otherwise as C01.slice.b",
                    doc="the sign of the duty of an isothermal stream only gives its direction")
    obs += split(lh, streams=[1], s0_dir=["latent_hot"]) + split(lh, streams=[2], s0_dir=["latent_hot"], s1_dir=list(K4))
    lin3 = Obligation("C01.slice3.b", _ob_slice(3, cp_values=(1.0, 3.0)), kind="bounded", tier="thorough", functions=fs, max_paths=2000000, timeout_ms=30000, stubs=st,
                      bound="3 streams; every temperature and contribution symbolic, heat-capacity flow rates from {1, 3} kW/K")
    obs += split(lin3, streams=[3], s0_dir=D, s1_dir=D, s2_dir=D)
    nl = Obligation("C01.slice.cp.b", _ob_slice(2), kind="bounded", tier="thorough", functions=fs, max_paths=100000, timeout_ms=60000, stubs=st,
                    bound="1..2 streams, every temperature / duty / contribution symbolic (non-linear arithmetic)",
                    doc="as C01.slice.b with symbolic heat-capacity flow rates")
    obs += split(nl, streams=[1]) + split(nl, streams=[2], s0_dir=D, s1_dir=D)
    import OpenPinch.analysis.data_preparation as dp
    obs.append(Obligation("C01.factory", ob_factory, kind="proof", functions=[dp._create_process_stream, Stream.__init__, Stream._update_attributes],
                          expect=("stream_kind_is_the_constructors",),
                          doc="FACTORY: request record -> Stream keeps every number with its sign (path-complete, all reals)"))
    import OpenPinch.analysis.direct_integration_entry as di
    obs.append(Obligation("C01.di.readout", ob_di_readout, kind="proof", functions=[di.compute_direct_integration_targets, di._save_graph_data],
                          stubs=("get_process_heat_cascade (C01.slice / C05)", "pinch_temperatures (C06)", "get_additional_GCCs (C07)", "get_utility_targets (C03/C04)",
                                 "get_balanced_CC (C15)", "_create_net_hot_and_cold_stream_collections_for_site_analysis"),
                          expect=("Qh_is_top_of_the_shifted_residual_as_computed",),
                          doc="READ-OUT: the record's targets are the cascade's end values as computed, not after display rounding (modular, path-complete)"))
    return obs
