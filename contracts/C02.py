"""C02 -- every reported target closes the first-law energy balance.

BALANCED(record) :=  Qh - Qc = cold duty - hot duty,  Qr = hot duty - Qc,  Qh, Qc, Qr >= 0,
                     sum(hot utility duties) - sum(cold utility duties) = Qh - Qc.

  direct integration   BALANCED is the postcondition of the cascade slice (C01 clauses, re-discharged here) + C03 CLOSURE
  total-process        _sum_subzone_targets returns value-by-value and utility-by-utility sums; a sum of BALANCED records over a
                       partition of the streams is BALANCED (linear lemma over the contracts)
  total-site           _get_site_utility_heat_cascade: Qh_TS - Qc_TS = sum hot-utility duty - sum cold-utility duty, both >= 0;
                       the read-out of compute_indirect_integration_targets takes exactly those two end values and
                       Qr_TS = Qr_TZ + (Qh_TZ - Qh_TS);  _match_utility_gen_and_use_at_same_level subtracts the same
                       non-negative amount from both sides
  serialisation        serialize_json carries the record's own Qh, Qc, Qr and utility duties
"""
from __future__ import annotations

from types import SimpleNamespace

import OpenPinch.analysis.indirect_integration_entry as ii
from OpenPinch.classes.energy_target import EnergyTarget
from OpenPinch.classes.stream import Stream
from OpenPinch.classes.stream_collection import StreamCollection
from OpenPinch.lib.enums import TargetType
from pvc.engine import Obligation, split
from pvc.npshim import NP as npx
from pvc.sym import And, Implies, Not, Or, SymReal, smax, smin

from . import C01
from .shared import COLD, HOT, PT, tol

LEVEL = "exploration"
LEVEL_TEXT = ("Bounded symbolic execution of the real summation, site-utility-cascade, matching, read-out and serialisation functions "
              "(1..3 zones, 0..2 utilities per side, all duties and targets symbolic; loops unrolled to those sizes) plus the C01 slice for the "
              "direct-integration record; the composition 'sum of balanced records is balanced' is a linear lemma checked by z3. The summation over sub-zones is ALSO "
              "proved for any number of zones (C02.tz.sum.u: loop cut with an inductive invariant over the running frame of the real function); everything else is bounded in the "
              "number of zones and utilities.")
ASSUMPTIONS = ["utility levels used in the summation / matching obligations are concrete and distinct (their order is fixed by C03's sorting contract)",
               "GAP: utility levels are rows of the site table (they are: the site grid is built from the net streams AND the utility streams)"]
DI = TargetType.DI.value


def _util(name, ts, tt, q, dt=0.0):
    return Stream(name, ts, tt, dt_cont=dt, heat_flow=q, htc=1.0, is_process_stream=False)


def _coll(streams):
    c = StreamCollection()
    for s in streams:
        c.add(s)
    return c


HOT_LEVELS = [(250.0, 249.9), (180.0, 179.9)]
COLD_LEVELS = [(20.0, 20.1), (100.0, 100.1)]


def _fake_zone(h, k, nh, nc):
    """A site zone with k sub-zones whose DI records carry symbolic targets and utility duties."""
    subs = {}
    recs = []
    for i in range(k):
        hu = _coll([_util(f"HU{j}", *HOT_LEVELS[j], h.real(f"z{i}_hu{j}", lo=0)) for j in range(nh)])
        cu = _coll([_util(f"CU{j}", *COLD_LEVELS[j], h.real(f"z{i}_cu{j}", lo=0)) for j in range(nc)])
        t = SimpleNamespace(hot_utility_target=h.real(f"z{i}_Qh"), cold_utility_target=h.real(f"z{i}_Qc"), heat_recovery_target=h.real(f"z{i}_Qr"),
                            utility_cost=h.real(f"z{i}_cost"), hot_utilities=hu, cold_utilities=cu, num_units=0, area=0.0)
        recs.append(t)
        subs[f"Z{i}"] = SimpleNamespace(name=f"Z{i}", targets={f"Z{i}/{DI}": t})
    added = {}
    zone = SimpleNamespace(
        name="Site", subzones=subs,
        hot_utilities=_coll([_util(f"HU{j}", *HOT_LEVELS[j], 7.0) for j in range(nh)]),
        cold_utilities=_coll([_util(f"CU{j}", *COLD_LEVELS[j], 9.0) for j in range(nc)]),
        targets={f"Site/{DI}": SimpleNamespace(heat_recovery_limit=h.real("site_limit"))},
        add_target_from_results=lambda tid, res: added.__setitem__(tid, res),
    )
    return zone, recs, added


def ob_tz_sum(h):
    k = h.choice("zones", [1, 2, 3])
    nh = h.choice("hot_utilities", [0, 1, 2])
    nc = h.choice("cold_utilities", [0, 1, 2])
    zone, recs, added = _fake_zone(h, k, nh, nc)
    ii._sum_subzone_targets(zone)
    res = added[TargetType.TZ.value]
    tv = res["target_values"]
    h.check("Qh_is_sum_of_zones", h.eq(tv["hot_utility_target"], sum([r.hot_utility_target for r in recs], 0.0)))
    h.check("Qc_is_sum_of_zones", h.eq(tv["cold_utility_target"], sum([r.cold_utility_target for r in recs], 0.0)))
    h.check("Qr_is_sum_of_zones", h.eq(tv["heat_recovery_target"], sum([r.heat_recovery_target for r in recs], 0.0)))
    for j in range(nh):
        h.check("each_hot_utility_is_sum_of_zones", h.eq(res["hot_utilities"][j].heat_flow, sum([r.hot_utilities[j].heat_flow for r in recs], 0.0)))
        h.check("summed_utility_keeps_its_level", res["hot_utilities"][j].t_supply == HOT_LEVELS[j][0])
        u = res["hot_utilities"][j]
        # the site cascade is built from the heat-capacity flow rate: it has to go with the summed duty
        h.check("summed_utility_heat_capacity_goes_with_its_duty", h.eq(u.CP * (u.t_max - u.t_min), u.heat_flow))
    for j in range(nc):
        h.check("each_cold_utility_is_sum_of_zones", h.eq(res["cold_utilities"][j].heat_flow, sum([r.cold_utilities[j].heat_flow for r in recs], 0.0)))
        u = res["cold_utilities"][j]
        h.check("summed_utility_heat_capacity_goes_with_its_duty", h.eq(u.CP * (u.t_max - u.t_min), u.heat_flow))
    # the zone's own utility objects and the zones' records are not written to
    for j in range(nh):
        h.check("zone_utilities_untouched", zone.hot_utilities[j].heat_flow == 7.0)
    # lemma: sum of balanced records over a partition of the streams is balanced
    nets = [h.real(f"z{i}_net") for i in range(k)]        # cold duty - hot duty of zone i
    hots = [h.real(f"z{i}_hotduty") for i in range(k)]
    bal = And(*[And(r.hot_utility_target - r.cold_utility_target == n, r.heat_recovery_target == q - r.cold_utility_target,
                    r.hot_utility_target >= 0, r.cold_utility_target >= 0, r.heat_recovery_target >= 0,
                    sum([u.heat_flow for u in r.hot_utilities], 0.0) - sum([u.heat_flow for u in r.cold_utilities], 0.0) == n)
                for r, n, q in zip(recs, nets, hots)])
    tot_net, tot_hot = sum(nets, 0.0), sum(hots, 0.0)
    h.check("sum_of_balanced_records_is_balanced", Implies(bal, And(
        tv["hot_utility_target"] - tv["cold_utility_target"] == tot_net,
        tv["heat_recovery_target"] == tot_hot - tv["cold_utility_target"],
        tv["hot_utility_target"] >= 0, tv["cold_utility_target"] >= 0, tv["heat_recovery_target"] >= 0,
        sum([u.heat_flow for u in res["hot_utilities"]], 0.0) - sum([u.heat_flow for u in res["cold_utilities"]], 0.0) == tot_net)))


def ob_tz_sum_u(h):
    """ADDITIVE for ANY number of sub-zones: the loop of _sum_subzone_targets is cut with the inductive invariant

        INV(i):  Qh = S_Qh(i), Qc = S_Qc(i), Qr = S_Qr(i), cost = S_cost(i),  every summed utility j: duty = S_hu_j(i) (S_cu_j(i)),
                 i >= 1  =>  CP_j * span_j = duty_j,      num_units = area = 0          (S_x(0) = 0, S_x(i+1) = S_x(i) + x(i): the spec sums)

    over the running frame of the real function (pvc/loopcut.py: base, preservation by one generic iteration, frame; exit at a symbolic n).  The
    post-state clauses are then stated at n: the record is the spec sum over all n zones.  Utilities per side stay concrete (0..2)."""
    import z3
    from pvc.loopcut import POISON, CutSeq
    from pvc.sym import SymBool, SymInt
    nh = h.choice("hot_utilities", [0, 1, 2])
    nc = h.choice("cold_utilities", [0, 1, 2])
    n = SymInt(z3.Int("n_zones"))
    h.assume(n >= 0)
    I, R = z3.IntSort(), z3.RealSort()
    fields = ["Qh", "Qc", "Qr", "cost"] + [f"hu{j}" for j in range(nh)] + [f"cu{j}" for j in range(nc)]
    q = {k: z3.Function(f"zone_{k}", I, R) for k in fields}          # the i-th zone's record value
    S = {k: z3.Function(f"sum_{k}", I, R) for k in fields}           # spec sum of the first i zones
    for k in fields:
        h.ctx.add_axiom(S[k](z3.IntVal(0)) == 0)

    def zi(i):
        return i.z if isinstance(i, SymInt) else z3.IntVal(i)

    def unfold(i):          # S(i+1) = S(i) + q(i), instantiated at the index terms the proof touches
        for k in fields:
            h.ctx.add_axiom(S[k](zi(i) + 1) == S[k](zi(i)) + q[k](zi(i)))

    def elem(i):
        unfold(i)
        for j in range(nh):
            h.ctx.add_axiom(q[f"hu{j}"](zi(i)) >= 0)
        for j in range(nc):
            h.ctx.add_axiom(q[f"cu{j}"](zi(i)) >= 0)
        hu = _coll([_util(f"HU{j}", *HOT_LEVELS[j], SymReal(q[f"hu{j}"](zi(i)))) for j in range(nh)])
        cu = _coll([_util(f"CU{j}", *COLD_LEVELS[j], SymReal(q[f"cu{j}"](zi(i)))) for j in range(nc)])
        t = SimpleNamespace(hot_utility_target=SymReal(q["Qh"](zi(i))), cold_utility_target=SymReal(q["Qc"](zi(i))), heat_recovery_target=SymReal(q["Qr"](zi(i))),
                            utility_cost=SymReal(q["cost"](zi(i))), hot_utilities=hu, cold_utilities=cu, num_units=0, area=0.0)
        made.extend([hu, cu])
        return SimpleNamespace(name="Zi", targets={f"Zi/{DI}": t})

    made = []

    def utils(L):
        return list(L["hot_utilities"]._streams.values()), list(L["cold_utilities"]._streams.values())

    def inv(i, L):
        z = zi(i)
        hus, cus = utils(L)
        out = [("Qh_is_spec_sum", h.eq(L["hot_utility_target"], SymReal(S["Qh"](z)))), ("Qc_is_spec_sum", h.eq(L["cold_utility_target"], SymReal(S["Qc"](z)))),
               ("Qr_is_spec_sum", h.eq(L["heat_recovery_target"], SymReal(S["Qr"](z)))), ("cost_is_spec_sum", h.eq(L["utility_cost"], SymReal(S["cost"](z)))),
               ("no_area_or_units_accumulated", And(h.eq(L["area"], 0.0), h.eq(L["num_units"], 0.0)))]
        for side, us in (("hu", hus), ("cu", cus)):
            for j, u in enumerate(us):
                out.append(("each_utility_duty_is_spec_sum", h.eq(u._heat_flow, SymReal(S[f"{side}{j}"](z)))))
                cp_ok = h.eq(u._CP * (u._t_max - u._t_min), u._heat_flow)
                out.append(("utility_heat_capacity_goes_with_its_duty_after_the_first_zone", cp_ok if not isinstance(i, SymInt) and i >= 1 else
                            (True if not isinstance(i, SymInt) else Implies(SymBool(z >= 1), cp_ok))))
        return out

    HEAP = ("_heat_flow", "_CP", "_RCP_prod", "_ut_cost")

    def havoc(i, L):
        hus, cus = utils(L)
        for u in hus + cus:
            for a in HEAP:
                setattr(u, a, h.fresh_real(a))
        new = {k: h.fresh_real(k) for k in ("hot_utility_target", "cold_utility_target", "heat_recovery_target", "utility_cost", "num_units", "area")}
        new.update({"t": POISON, "j": POISON})
        return new

    def modifies(L):
        hus, cus = utils(L)
        # + the lazily refreshed sort caches of the collections the body indexes (its own two and the generic zone's two)
        caches = [(c, a) for c in [L["hot_utilities"], L["cold_utilities"]] + made for a in ("_sorted_cache", "_needs_sort")]
        return [(u, a) for u in hus + cus for a in HEAP] + caches

    added = {}
    seq = CutSeq(h, "zones", n, elem, inv, havoc, modifies)
    zone = SimpleNamespace(
        name="Site", subzones=SimpleNamespace(values=lambda: seq),
        hot_utilities=_coll([_util(f"HU{j}", *HOT_LEVELS[j], 7.0) for j in range(nh)]),
        cold_utilities=_coll([_util(f"CU{j}", *COLD_LEVELS[j], 9.0) for j in range(nc)]),
        targets={f"Site/{DI}": SimpleNamespace(heat_recovery_limit=h.real("site_limit"))},
        add_target_from_results=lambda tid, res: added.__setitem__(tid, res),
    )
    ii._sum_subzone_targets(zone)
    # ---- after the loop (only the exit case gets here): the record against the spec sums at n ------------------------------------------
    res = added[TargetType.TZ.value]
    tv = res["target_values"]
    N = n.z
    h.check("Qh_is_sum_of_all_zones", h.eq(tv["hot_utility_target"], SymReal(S["Qh"](N))))
    h.check("Qc_is_sum_of_all_zones", h.eq(tv["cold_utility_target"], SymReal(S["Qc"](N))))
    h.check("Qr_is_sum_of_all_zones", h.eq(tv["heat_recovery_target"], SymReal(S["Qr"](N))))
    for side, nn, levels in (("hu", nh, HOT_LEVELS), ("cu", nc, COLD_LEVELS)):
        coll = list(res["hot_utilities" if side == "hu" else "cold_utilities"]._streams.values())      # insertion order = the order of the spec sums
        for j in range(nn):
            u = coll[j]
            h.check("each_utility_is_sum_of_all_zones", h.eq(u.heat_flow, SymReal(S[f"{side}{j}"](N))))
            h.check("summed_utility_keeps_its_level", u.t_supply == levels[j][0])
            h.check("summed_utility_heat_capacity_goes_with_its_duty", Implies(SymBool(N >= 1), h.eq(u.CP * (u.t_max - u.t_min), u.heat_flow)))
    for j in range(nh):
        h.check("zone_utilities_untouched", zone.hot_utilities[j].heat_flow == 7.0)


def ob_ts_cascade(h):
    """Site utility cascade: end values against the utility duties (utility levels are rows of the grid)."""
    nh = h.choice("hot_utilities", [0, 1, 2])
    nc = h.choice("cold_utilities", [0, 1, 2])
    if nh + nc == 0:
        return
    hu = [_util(f"HU{j}", *HOT_LEVELS[j], h.real(f"hu{j}", lo=0)) for j in range(nh)]
    cu = [_util(f"CU{j}", *COLD_LEVELS[j], h.real(f"cu{j}", lo=0)) for j in range(nc)]
    rows = sorted({300.0, 10.0} | {t for s in hu + cu for t in (s.t_min_star, s.t_max_star)}, reverse=True)
    T = npx.array(rows) if h.symbolic else __import__("numpy").array(rows)
    out = ii._get_site_utility_heat_cascade(T, _coll(hu), _coll(cu), is_shifted=True)
    U = list(out[PT.H_NET_UT.value])
    qh, qc = sum([s.heat_flow for s in hu], 0.0), sum([s.heat_flow for s in cu], 0.0)
    h.check("TS_Qh_minus_Qc_is_hot_minus_cold_utility_duty", h.eq(U[0] - U[-1], qh - qc))
    h.check("TS_targets_non_negative", And(U[0] >= 0, U[-1] >= 0))
    h.check("TS_Qh_not_above_summed_hot_utility", U[0] <= qh)
    h.check("TS_Qc_not_above_summed_cold_utility", U[-1] <= qc)
    h.check("utility_gcc_non_negative", And(*[x >= 0 for x in U]))


def ob_match(h):
    nh = h.choice("hot_utilities", [1, 2])
    nc = h.choice("cold_utilities", [1, 2])
    # how many generation (cold) levels lie within 1 K of use level 0
    same = h.choice("generation_levels_matching_use_level_0", [0, 1, 2])
    if same > nc:
        return
    hu = [_util(f"HU{j}", *HOT_LEVELS[j], h.real(f"hu{j}", lo=0)) for j in range(nh)]
    levels = list(COLD_LEVELS)
    if same >= 1:
        levels[0] = (HOT_LEVELS[0][1], HOT_LEVELS[0][0])              # raised exactly at the level hot utility 0 is used at
    if same == 2:
        levels[1] = (HOT_LEVELS[0][1] - 0.5, HOT_LEVELS[0][0] - 0.5)  # a second generation level half a kelvin below
    cu = [_util(f"CU{j}", *levels[j], h.real(f"cu{j}", lo=0)) for j in range(nc)]
    before_h, before_c = [s.heat_flow for s in hu], [s.heat_flow for s in cu]
    ii._match_utility_gen_and_use_at_same_level(_coll(hu), _coll(cu))
    after_h, after_c = [s.heat_flow for s in hu], [s.heat_flow for s in cu]
    h.check("net_utility_duty_unchanged", h.eq(sum(after_h, 0.0) - sum(after_c, 0.0), sum(before_h, 0.0) - sum(before_c, 0.0)))
    for a, b in zip(after_h + after_c, before_h + before_c):
        h.check("duties_stay_non_negative", a >= 0)
        h.check("duties_never_increase", a <= b)
    if same == 0:
        h.check("unmatched_levels_untouched", And(*[h.eq(a, b) for a, b in zip(after_h + after_c, before_h + before_c)]))


def ob_match_u(h):
    """MATCH for ANY number of hot (use) utilities against 1..2 cold (generation) utilities at arbitrary symbolic levels: the outer loop of
    _match_utility_gen_and_use_at_same_level is cut with

        INV(i):  every generation duty d_c satisfies 0 <= d_c <= d_c(0) and CP_c * span_c = d_c,   sum_c d_c = sum_c d_c(0) - R(i)
        ghost    R(0) = 0,  R(i+1) = R(i) + (q(i) - q'(i))      what the first i use levels have given up (q'(i): duty of use level i after its turn)
        element  0 <= q'(i) <= q(i),  CP_i * span_i = q'(i)

    so at exit both sides have lost exactly R(n): the net utility duty is unchanged, nothing became negative, nothing grew."""
    import z3
    from pvc.loopcut import POISON, CutSeq
    from pvc.sym import SymInt
    nc = h.choice("cold_utilities", [1, 2])
    n = SymInt(z3.Int("n_hot"))
    h.assume(n >= 0)
    I, Rs = z3.IntSort(), z3.RealSort()
    q, ts, tt, R = (z3.Function(k, I, Rs) for k in ("use_duty", "use_t_supply", "use_t_target", "given_up"))
    h.ctx.add_axiom(R(z3.IntVal(0)) == 0)
    cts, ctt, cq = h.reals("cu_ts", nc), h.reals("cu_tt", nc), h.reals("cu_q", nc, lo=0)
    for a, b in zip(cts, ctt):
        h.assume(a < b)
    cu = [_util(f"CU{j}", cts[j], ctt[j], cq[j]) for j in range(nc)]
    total0 = sum(cq, 0.0)
    zi = lambda i: i.z if isinstance(i, SymInt) else z3.IntVal(i)

    def elem(i):
        z = zi(i)
        h.ctx.add_axiom(z3.And(q(z) >= 0, ts(z) > tt(z)))
        return _util("HUi", SymReal(ts(z)), SymReal(tt(z)), SymReal(q(z)))

    def inv(i, L):
        out = [("generation_side_has_lost_what_the_use_side_gave_up", h.eq(sum([u._heat_flow for u in cu], 0.0), total0 - SymReal(R(zi(i)))))]
        for j, u in enumerate(cu):
            out.append(("duties_stay_non_negative", u._heat_flow >= 0))
            out.append(("duties_never_increase", u._heat_flow <= cq[j]))
            out.append(("heat_capacity_goes_with_the_duty", h.eq(u._CP * (u._t_max - u._t_min), u._heat_flow)))
        return out

    HEAP = ("_heat_flow", "_CP", "_RCP_prod", "_ut_cost")

    def havoc(i, L):
        for u in cu:
            for a in HEAP:
                setattr(u, a, h.fresh_real(a))
        return {"u_c": POISON, "Q": POISON}

    def ghost(i, L, e):
        h.ctx.add_axiom(R(zi(i) + 1) == R(zi(i)) + (q(zi(i)) - e._heat_flow.z if isinstance(e._heat_flow, SymReal) else R(zi(i)) + q(zi(i)) - e._heat_flow))

    def elem_post(i, L, e):
        return [("duties_stay_non_negative", e._heat_flow >= 0), ("duties_never_increase", e._heat_flow <= SymReal(q(zi(i)))),
                ("heat_capacity_goes_with_the_duty", h.eq(e._CP * (e._t_max - e._t_min), e._heat_flow)),
                ("level_untouched", And(h.eq(e._t_supply, SymReal(ts(zi(i)))), h.eq(e._t_target, SymReal(tt(zi(i))))))]

    coll_c = _coll(cu)
    seq = CutSeq(h, "use_levels", n, elem, inv, havoc, modifies=lambda L: [(u, a) for u in cu + [seq_e[0]] for a in HEAP] + [(coll_c, "_sorted_cache"), (coll_c, "_needs_sort")],
                 ghost=ghost, elem_post=elem_post)
    seq_e = [None]
    _elem = seq.elem
    seq.elem = lambda i: seq_e.__setitem__(0, _elem(i)) or seq_e[0]
    ii._match_utility_gen_and_use_at_same_level(seq, coll_c)
    # ---- exit: both sides have lost R(n) ------------------------------------------------------------------------------------------------
    Rn = SymReal(R(n.z))
    h.check("generation_side_lost_exactly_what_the_use_side_gave_up", h.eq(sum([u.heat_flow for u in cu], 0.0), total0 - Rn))
    for j, u in enumerate(cu):
        h.check("duties_stay_non_negative", u.heat_flow >= 0)
        h.check("duties_never_increase", u.heat_flow <= cq[j])
        h.check("level_untouched", And(h.eq(u.t_supply, cts[j]), h.eq(u.t_target, ctt[j])))


def ob_set_targets(h):
    a, b, c, d = h.real("Qh"), h.real("Qc"), h.real("Qr"), h.real("limit")
    tv = ii._set_sites_targets(a, b, c, d)
    h.check("values_passed_through", And(h.eq(tv["hot_utility_target"], a), h.eq(tv["cold_utility_target"], b), h.eq(tv["heat_recovery_target"], c),
                                         h.eq(tv["heat_recovery_limit"], d)))


def ob_serialise(h):
    nh = h.choice("hot_utilities", [0, 1, 2])
    nc = h.choice("cold_utilities", [0, 1])
    hu = [SimpleNamespace(name=f"HU{j}", heat_flow=h.real(f"hu{j}")) for j in range(nh)]
    cu = [SimpleNamespace(name=f"CU{j}", heat_flow=h.real(f"cu{j}")) for j in range(nc)]
    rec = SimpleNamespace(name="Z/DI", degree_of_int=None, hot_utility_target=h.real("Qh"), cold_utility_target=h.real("Qc"), heat_recovery_target=h.real("Qr"),
                          utility_cost=h.real("cost"), hot_pinch=None, cold_pinch=None,
                          config=SimpleNamespace(DO_TURBINE_WORK=False, DO_AREA_TARGETING=False, DO_EXERGY_TARGETING=False), hot_utilities=hu, cold_utilities=cu)
    d = EnergyTarget.serialize_json(rec)
    h.check("record_carries_its_own_targets", And(h.eq(d["Qh"], rec.hot_utility_target), h.eq(d["Qc"], rec.cold_utility_target), h.eq(d["Qr"], rec.heat_recovery_target)))
    h.check("record_lists_every_utility_once", len(d["hot_utilities"]) == nh and len(d["cold_utilities"]) == nc)
    for j in range(nh):
        h.check("record_carries_utility_duty", And(d["hot_utilities"][j]["name"] == f"HU{j}", h.eq(d["hot_utilities"][j]["heat_flow"], hu[j].heat_flow)))
    for j in range(nc):
        h.check("record_carries_utility_duty", And(d["cold_utilities"][j]["name"] == f"CU{j}", h.eq(d["cold_utilities"][j]["heat_flow"], cu[j].heat_flow)))


def ob_ts_readout(h):
    """compute_indirect_integration_targets with every callee replaced by its contract: what ends up on the TS record."""
    from OpenPinch.classes.problem_table import ProblemTable
    from OpenPinch.lib.config import Configuration
    n = 3
    recorded = {}
    hu = _coll([_util("HU0", *HOT_LEVELS[0], h.real("tz_hu0", lo=0))])
    cu = _coll([_util("CU0", HOT_LEVELS[0][1], HOT_LEVELS[0][0], h.real("tz_cu0", lo=0))])      # generated at the level HU0 is used at
    tz = SimpleNamespace(hot_utilities=hu, cold_utilities=cu, heat_recovery_target=h.real("tz_Qr"), hot_utility_target=h.real("tz_Qh"),
                         cold_utility_target=h.real("tz_Qc"), heat_recovery_limit=h.real("tz_limit"))
    cfg = Configuration()
    zone = SimpleNamespace(name="Site", config=cfg, identifier="Site", targets={f"Site/{TargetType.TZ.value}": tz},
                           net_hot_streams=StreamCollection(), net_cold_streams=StreamCollection(), all_net_streams=StreamCollection(),
                           import_hot_and_cold_streams_from_sub_zones=lambda **k: None,
                           add_target_from_results=lambda tid, res: recorded.__setitem__(tid, res))
    Ts = [300.0, 150.0, 10.0]

    def fake_cascade(**k):
        return ProblemTable({PT.T.value: list(Ts), PT.H_HOT.value: h.reals("Hh" + ("s" if k.get("is_shifted") else "r"), n),
                             PT.H_COLD.value: h.reals("Hc" + ("s" if k.get("is_shifted") else "r"), n),
                             PT.H_NET.value: h.reals("Hn" + ("s" if k.get("is_shifted") else "r"), n)})
    ut_cols = {}

    def fake_ut_cascade(T, hot, cold, is_shifted=True):
        tag = "s" if is_shifted else "r"
        d = {PT.H_NET_UT.value: npx.array(h.reals("U" + tag, n)) if h.symbolic else __import__("numpy").array(h.reals("U" + tag, n)),
             PT.H_HOT_UT.value: npx.array(h.reals("UH" + tag, n)) if h.symbolic else __import__("numpy").array(h.reals("UH" + tag, n)),
             PT.H_COLD_UT.value: npx.array(h.reals("UC" + tag, n)) if h.symbolic else __import__("numpy").array(h.reals("UC" + tag, n))}
        ut_cols[tag] = d
        ut_cols["duties_" + tag] = ([u.heat_flow for u in hot], [u.heat_flow for u in cold])
        return d
    if not h.symbolic:
        raise __import__("pvc.engine", fromlist=["ReplayMismatch"]).ReplayMismatch("modular obligation: callees are contracts, no native replay")
    h.stub(ii, "_sum_subzone_targets", lambda z: z)
    h.stub(ii, "get_process_heat_cascade", fake_cascade)
    h.stub(ii, "_get_site_utility_heat_cascade", fake_ut_cascade)
    ii.compute_indirect_integration_targets(zone)
    res = recorded[TargetType.TS.value]
    tv = res["target_values"]
    U = ut_cols["s"][PT.H_NET_UT.value]
    for tag in ("s", "r"):
        dh, dc = ut_cols["duties_" + tag]
        h.check("site_utility_cascade_sees_the_summed_zone_duties", And(h.eq(dh[0], h.real("tz_hu0")), h.eq(dc[0], h.real("tz_cu0"))))
    h.check("TS_Qh_is_top_of_shifted_utility_gcc", h.eq(tv["hot_utility_target"], U[0]))
    h.check("TS_Qc_is_bottom_of_shifted_utility_gcc", h.eq(tv["cold_utility_target"], U[n - 1]))
    h.check("TS_Qr_is_TZ_recovery_plus_hot_utility_saved", h.eq(tv["heat_recovery_target"], tz.heat_recovery_target + (tz.hot_utility_target - U[0])))
    h.check("TS_record_utilities_are_copies", res["hot_utilities"] is not hu and res["cold_utilities"] is not cu)
    h.check("TZ_record_utilities_untouched", And(h.eq(list(hu)[0].heat_flow, h.real("tz_hu0")), h.eq(list(cu)[0].heat_flow, h.real("tz_cu0"))))
    # lemma: from the TZ balance and the utility-cascade contract (C02.ts.cascade.b) the TS record is balanced
    net, hotduty = h.real("site_net"), h.real("site_hot_duty")
    tz_bal = And(tz.hot_utility_target - tz.cold_utility_target == net, tz.heat_recovery_target == hotduty - tz.cold_utility_target)
    casc = And(U[0] - U[n - 1] == tz.hot_utility_target - tz.cold_utility_target, U[0] >= 0, U[n - 1] >= 0, U[0] <= tz.hot_utility_target)
    h.check("TS_record_is_balanced", Implies(And(tz_bal, casc, tz.heat_recovery_target >= 0), And(
        tv["hot_utility_target"] - tv["cold_utility_target"] == net, tv["heat_recovery_target"] == hotduty - tv["cold_utility_target"],
        tv["heat_recovery_target"] >= 0)))


def _deps(module, names, prefix, why):
    """callee contracts this property's clauses are stated against, discharged here as well (same harness objects, other names)"""
    out = []
    for o in module.obligations():
        base = o.name.split("[")[0]
        if base in names and o.tier == "quick":
            out.append(Obligation(o.name.replace(base.split(".")[0] + ".", prefix, 1), o.fn, kind=o.kind, functions=o.functions, bound=o.bound, max_paths=o.max_paths, params=o.params,
                                  timeout_ms=o.timeout_ms, expect=o.expect, stubs=o.stubs, runner=o.runner, time_budget_s=o.time_budget_s,
                                  doc=f"(callee contract, shared with {base.split('.')[0]}: {why}) " + (o.doc or "")))
    return out


def obligations():
    fs = C01.obligations()[0].functions
    D = ["hot", "cold", "latent"]
    di = Obligation("C02.di.balance.b", C01._ob_slice(2, cp_values=(1.0, 3.0)), kind="bounded", functions=fs, max_paths=200000, timeout_ms=30000,
                    bound="1..2 streams; temperatures and contributions symbolic, heat-capacity flow rates from {1, 3} kW/K",
                    doc="direct-integration record: Qh - Qc = net duty, Qr = hot duty - Qc, all >= 0 (the C01 slice clauses)")
    obs = split(di, streams=[1]) + split(di, streams=[2], s0_dir=D, s1_dir=D)
    ro = [o for o in C01.obligations() if o.name == "C01.di.readout"][0]
    obs.append(Obligation("C02.di.readout", ro.fn, kind=ro.kind, functions=ro.functions, stubs=ro.stubs, expect=ro.expect, doc="(shared with C01) " + ro.doc))
    obs += [
        Obligation("C02.tz.sum.b", ob_tz_sum, kind="bounded", bound="1..3 zones x 0..2 hot x 0..2 cold utilities, every target and duty symbolic (loops unrolled)",
                   functions=[ii._sum_subzone_targets, ii._reset_utility_heat_flows, ii._set_sites_targets, Stream.set_heat_flow], max_paths=100000,
                   doc="value-by-value and utility-by-utility sums; sum of balanced records is balanced"),
        Obligation("C02.tz.sum.u", ob_tz_sum_u, kind="proof", functions=[ii._sum_subzone_targets, ii._reset_utility_heat_flows, ii._set_sites_targets, Stream.set_heat_flow], max_paths=100000,
                   expect=("zones.base.Qh_is_spec_sum", "zones.preserved.Qh_is_spec_sum", "zones.frame", "Qh_is_sum_of_all_zones"),
                   bound="ANY number of sub-zones (loop cut with an inductive invariant over the running frame of the real function); 0..2 utilities per side",
                   doc="ADDITIVE for every zone count: base / preservation / frame of the summation loop, record = spec sum at n"),
        Obligation("C02.ts.cascade.b", ob_ts_cascade, kind="bounded", bound="0..2 hot and 0..2 cold utilities at distinct levels, duties symbolic",
                   functions=[ii._get_site_utility_heat_cascade], max_paths=100000, doc="TS end values against utility duties; non-negativity; upper bounds"),
        Obligation("C02.match.b", ob_match, kind="bounded", bound="1..2 hot x 1..2 cold utilities, with and without a matching level, duties symbolic",
                   functions=[ii._match_utility_gen_and_use_at_same_level, Stream.set_heat_flow], max_paths=100000),
        Obligation("C02.match.u", ob_match_u, kind="proof", functions=[ii._match_utility_gen_and_use_at_same_level, Stream.set_heat_flow], max_paths=100000,
                   expect=("use_levels.base.duties_stay_non_negative", "use_levels.preserved.generation_side_has_lost_what_the_use_side_gave_up", "use_levels.element.duties_never_increase",
                           "use_levels.frame", "generation_side_lost_exactly_what_the_use_side_gave_up"),
                   bound="ANY number of use (hot) utilities at arbitrary levels (outer loop cut with an inductive invariant and a ghost sum); 1..2 generation (cold) utilities at symbolic levels",
                   doc="MATCH for every number of use levels: both sides lose the same non-negative amount, nothing becomes negative or grows"),
        Obligation("C02.set_targets", ob_set_targets, kind="proof", functions=[ii._set_sites_targets]),
        Obligation("C02.ts.readout", ob_ts_readout, kind="proof", functions=[ii.compute_indirect_integration_targets, ii._get_site_process_heat_load_profiles],
                   stubs=("get_process_heat_cascade (any table)", "_get_site_utility_heat_cascade (any columns; contract C02.ts.cascade.b)", "_sum_subzone_targets (C02.tz.sum.b)",
                          "Zone.import_hot_and_cold_streams_from_sub_zones"),
                   doc="modular: the TS record takes the two end values of the shifted utility GCC; Qr by difference; TS record balanced from the callee contracts"),
        Obligation("C02.serialise.b", ob_serialise, kind="bounded", bound="0..2 hot and 0..1 cold utilities on the record", functions=[EnergyTarget.serialize_json]),
    ]
    from . import C03
    obs += _deps(C03, ("C03.utilities_list.b", "C03.extremes", "C03.default.decision"), "C02.dep.",
                 "utility streams start from zero duty; default utilities reach the extreme stream temperatures and are added whenever no supplied utility does (the utility-side balance needs a utility that can take the duty)")
    return obs
