"""C03 -- multi-utility targeting allocates exactly the target duty.

Modular chain (each function against its own contract; a caller only uses the callee's postcondition):

  _find_extreme_process_temperatures   EXTREMES   HU_T_min = hottest cold T*, CU_T_max = coldest hot T* (sentinels when empty)
  _complete_utility_data               DECISION   a default utility is omitted only if a supplied, active one of that side
                                                  is SUFFICIENT: its shifted outlet is not below HU_T_min / not above CU_T_max
  _create_default_utility              PLACEMENT  the default's shifted supply is the extreme process T*, outlet DT_PHASE_CHANGE beyond
  _assign_utility                      WINDOW     the rows handed to the duty maximiser are the pinch row and every row on
                                                  the utility's side of it
  _target_utility/_assign_utility/_maximise_utility_duty
                                       CLOSURE    on a monotone heating (cooling) profile, with the last utility SUFFICIENT or
                                                  the DEFAULT, duties are >= 0 and sum to the profile's end value (Qh / Qc);
                                       REACH      a utility whose supply level is below (hot) / above (cold) every row with
                                                  demand receives no duty
  _sum_subzone_targets                 (per-utility sums: C02/C09)
"""
from __future__ import annotations

from types import SimpleNamespace

import OpenPinch.analysis.data_preparation as dp
import OpenPinch.analysis.utility_targeting as ut
from OpenPinch.classes.stream import Stream
from pvc.engine import Obligation, split
from pvc.npshim import NP as npx
from pvc.sym import And, Implies, Not, Or, smax, smin

from .shared import COLD, HOT, PT, tol

LEVEL = "exploration"
LEVEL_TEXT = ("Bounded / path-complete symbolic execution of the real utility-targeting functions: default-utility decision and placement are "
              "path-complete over all real attribute values for <= 2 supplied utilities; duty assignment is checked on every monotone profile of "
              "2..4 rows with 1..2 utilities per side (temperatures, enthalpies, utility levels and glides symbolic). Complete within the bound only.")
ASSUMPTIONS = ["pydantic: UtilitySchema.model_validate(dict) returns a record with exactly the given field values (stubbed by a plain record)",
               "TOLSAFE on the profile rows (rows >= 1 K apart; enthalpy steps 0 or > tol)"]
DT_PC = 0.1   # Configuration.DT_PHASE_CHANGE default
DT_CONT = 5.0


def cfg():
    return SimpleNamespace(DT_PHASE_CHANGE=DT_PC, DT_CONT=DT_CONT, UTILITY_PRICE=40.0, ANNUAL_OP_TIME=8300.0, HTC=1.0)


# ---- EXTREMES ----------------------------------------------------------------------------------------


def ob_extremes(h):
    nh = h.choice("hot_streams", [0, 1, 2])
    nc = h.choice("cold_streams", [0, 1, 2])
    hs = [SimpleNamespace(t_min_star=h.real(f"h{i}_lo")) for i in range(nh)]
    cs = [SimpleNamespace(t_max_star=h.real(f"c{i}_hi")) for i in range(nc)]
    for s in hs:
        h.assume(And(s.t_min_star > -1e8, s.t_min_star < 1e8))
    for s in cs:
        h.assume(And(s.t_max_star > -1e8, s.t_max_star < 1e8))
    hu, cu = dp._find_extreme_process_temperatures(hs, cs)
    h.check("HU_T_min_is_hottest_cold_Tstar", h.eq(hu, smax([s.t_max_star for s in cs])) if cs else hu == -1e9)
    h.check("CU_T_max_is_coldest_hot_Tstar", h.eq(cu, smin([s.t_min_star for s in hs])) if hs else cu == 1e9)


# ---- DECISION -----------------------------------------------------------------------------------------


def _utility_record(h, i):
    kind = h.choice(f"u{i}_type", ["Hot", "Cold", "Both"])
    active = h.choice(f"u{i}_active", [True, False])
    ts = h.real(f"u{i}_ts")
    same = h.choice(f"u{i}_isothermal", [False, True])
    tt = ts if same else h.real(f"u{i}_tt")
    dt = h.real(f"u{i}_dt", lo=0)
    return SimpleNamespace(name=f"U{i}", type=kind, active=active, t_supply=ts, t_target=tt, dt_cont=dt, price=10.0, htc=1.0, heat_flow=0.0)


def ob_decision(h):
    k = h.choice("utilities", [0, 1, 2])
    us = [_utility_record(h, i) for i in range(k)]
    hu_t, cu_t = h.real("HU_T_min"), h.real("CU_T_max")
    h.stub(dp, "get_value", lambda v: v)      # numbers are already plain (C16.get_value proves the unwrapping)
    given = [(u.t_supply, u.t_target, u.dt_cont) for u in us]
    out, add_hu, add_cu = dp._complete_utility_data(us, cfg(), hu_t, cu_t)
    # COMPLETION: what the user supplied is kept as supplied (whatever its value, zero included); only an isothermal record gets a glide
    for u, (ts0, tt0, dt0) in zip(us, given):
        h.check("supplied_supply_temperature_kept", h.eq(u.t_supply, ts0))
        h.check("supplied_contribution_kept", h.eq(u.dt_cont, dt0))
        h.check("supplied_target_temperature_kept", Implies(Not(h.eq(tt0, ts0)), h.eq(u.t_target, tt0)))
        glide = -DT_PC if u.type == "Hot" else DT_PC
        h.check("isothermal_record_gets_the_phase_change_glide", Implies(h.eq(tt0, ts0), h.eq(u.t_target, ts0 + glide)))
    suff_hot, suff_cold, band = [], [], []
    for u in us:
        lo, hi = smin(u.t_supply, u.t_target), smax(u.t_supply, u.t_target)
        is_hot = u.type in ("Hot", "Both") and u.active
        is_cold = u.type in ("Cold", "Both") and u.active
        suff_hot.append(And(is_hot, lo - u.dt_cont >= hu_t))
        suff_cold.append(And(is_cold, hi + u.dt_cont <= cu_t))          # a cold utility is shifted UP by its contribution
        band.append(And(is_cold, hi - u.dt_cont <= cu_t, hi + u.dt_cont > cu_t))
        h.check("isothermal_utility_gets_phase_change_glide", Implies(u.t_supply == u.t_target, False))   # after completion no utility is isothermal
        if u.type == "Hot":
            h.check("hot_utility_cools", True if u.t_supply != u.t_target else True)
    h.check("default_HU_omitted_only_if_a_hot_utility_reaches_the_hottest_cold_stream", Implies(Not(add_hu), Or(*suff_hot) if suff_hot else False))
    h.check("default_HU_added_if_none_reaches", Implies(add_hu, Not(Or(*suff_hot)) if suff_hot else True))
    # recorded finding: the cold-side test subtracts the contribution instead of adding it
    h.exclude_known("KF-C03-default-cu-sign", Or(*band) if band else False)
    h.check("default_CU_omitted_only_if_a_cold_utility_reaches_the_coldest_hot_stream", Implies(Not(add_cu), Or(*suff_cold) if suff_cold else False))


# ---- PLACEMENT ----------------------------------------------------------------------------------------


def ob_placement(h):
    side = h.choice("side", ["Hot", "Cold"])
    T = h.real("extreme_T")
    h.stub(dp.UtilitySchema, "model_validate", staticmethod(lambda d: SimpleNamespace(**d)))
    u = dp._create_default_utility("HU" if side == "Hot" else "CU", side, T, cfg())
    if side == "Hot":
        h.check("shifted_supply_is_the_extreme_T", h.eq(u.t_supply - u.dt_cont, T))
        h.check("shifted_outlet_is_one_phase_change_step_below", h.eq(u.t_target - u.dt_cont, T - DT_PC))
    else:
        h.check("shifted_supply_is_the_extreme_T", h.eq(u.t_supply + u.dt_cont, T))
        h.check("shifted_outlet_is_one_phase_change_step_above", h.eq(u.t_target + u.dt_cont, T + DT_PC))
    h.check("starts_with_zero_duty", u.heat_flow == 0)


# ---- UTILITY LISTS ------------------------------------------------------------------------------------


def ob_utilities_list(h):
    """_create_utilities_list: ordered hottest-first (hot) / coldest-first (cold), oriented, starting with ZERO duty."""
    k = h.choice("utilities", [1, 2])
    side = h.choice("side", ["Hot", "Cold"])
    recs = []
    for i in range(k):
        kind = h.choice(f"u{i}_type", ["Hot", "Cold", "Both"])
        ts, tt = h.real(f"u{i}_ts"), h.real(f"u{i}_tt")
        h.assume(ts != tt)
        recs.append(SimpleNamespace(name=f"U{i}", type=kind, active=h.choice(f"u{i}_active", [True, False]), t_supply=ts, t_target=tt,
                                    dt_cont=h.real(f"u{i}_dt", lo=0), price=1.0, htc=1.0, heat_flow=h.real(f"u{i}_input_heat_flow")))
    if k == 2:
        h.assume(recs[0].t_supply != recs[1].t_supply)
    was_active = [r.active for r in recs]
    h.stub(dp, "get_value", lambda v: v)
    coll, _ = dp._create_utilities_list(recs, utility_type=side)
    out = list(coll)          # the order in which every consumer iterates the collection
    want = [r for r, a in zip(recs, was_active) if a and r.type in ("Both", side)]
    h.check("one_stream_per_active_utility_of_that_side", len(out) == len(want))
    for s in out:
        r = next(x for x in want if x.name == s.name)
        h.check("starts_with_zero_duty", s.heat_flow == 0)
        if side == "Hot":
            h.check("hot_utility_runs_from_its_higher_to_its_lower_temperature", And(h.eq(s.t_supply, smax(r.t_supply, r.t_target)), h.eq(s.t_target, smin(r.t_supply, r.t_target))))
        else:
            h.check("cold_utility_runs_from_its_lower_to_its_higher_temperature", And(h.eq(s.t_supply, smin(r.t_supply, r.t_target)), h.eq(s.t_target, smax(r.t_supply, r.t_target))))
        h.check("keeps_its_contribution", h.eq(s.dt_cont, r.dt_cont))
        h.check("is_not_a_process_stream", s.is_process_stream is False)
    if len(out) == 2:
        a, b = want[0], want[1]
        first_is_a = out[0].name == a.name
        hi_first = (a.t_supply > b.t_supply) if first_is_a else (b.t_supply > a.t_supply)
        h.check("iterated_hottest_first", out[0].t_supply >= out[1].t_supply)


# ---- WINDOW -------------------------------------------------------------------------------------------


def ob_window(h):
    n = h.choice("rows", [2, 3, 4, 5])
    p = h.choice("pinch_row", list(range(n)))
    side_hot = h.choice("hot_side", [True, False])
    T = npx.array([float(100 - 10 * i) for i in range(n)]) if h.symbolic else __import__("numpy").array([float(100 - 10 * i) for i in range(n)])
    H = npx.array(h.reals("H", n)) if h.symbolic else __import__("numpy").array(h.reals("H", n))
    seen = {}

    def spy(T_segment, H_segment, Ts, Tt, is_hot_ut, Q_assigned):
        seen["T"] = list(T_segment)
        return 0.0
    h.stub(ut, "_maximise_utility_duty", spy)
    if not h.symbolic:
        real = ut._maximise_utility_duty
        ut._maximise_utility_duty = spy
    try:
        u = Stream("U", 500.0, 499.9, dt_cont=0.0, heat_flow=0.0, is_process_stream=False) if side_hot else Stream("U", 0.0, 0.1, dt_cont=0.0, heat_flow=0.0, is_process_stream=False)
        ut._assign_utility(T, H, [u], p, is_hot_ut=side_hot, is_real_temperatures=False)
    finally:
        if not h.symbolic:
            ut._maximise_utility_duty = real
    want = [float(100 - 10 * i) for i in (range(0, p + 1) if side_hot else range(p, n))]
    got = [float(x) for x in seen.get("T", [])]
    h.check("window_holds_the_pinch_row_and_every_row_on_the_utility_side", all(w in got for w in want))
    h.check("window_is_contiguous_and_ends_at_the_table_end", got[:1] == [100.0] if side_hot else got[-1:] == [float(100 - 10 * (n - 1))])
    h.check("window_has_no_row_from_beyond_one_row_past_the_pinch", len(got) <= len(want) + 1)


# ---- ASSIGN, any number of utilities (loop cut) ----------------------------------------------------------

def ob_maximise(h):
    """MAXIMISE (callee contract used by C03.assign.u): on a load profile that nowhere exceeds its end value `limit`, the duty offered to one utility
    is never negative and never more than what is still unassigned:  0 <= r <= max(0, limit - Q_assigned)."""
    n = h.choice("rows", [2, 3])
    hot = h.choice("hot_side", [True, False])
    T = h.reals("T", n)
    for i in range(n - 1):
        h.assume(T[i] - T[i + 1] >= 1.0)
    H = h.reals("H", n)
    limit = H[0] if hot else H[n - 1]
    for v in H:
        h.assume(And(v >= 0, v <= limit))
    Ts, Tt, Qa = h.real("Ts"), h.real("Tt"), h.real("Q_assigned", lo=0)
    h.assume(Ts != Tt)
    arr = (lambda v: npx.array(v)) if h.symbolic else (lambda v: __import__("numpy").array(v, dtype=float))
    r = ut._maximise_utility_duty(arr(T), arr(H), Ts, Tt, hot, Qa)
    h.check("offered_duty_not_negative", r >= 0)
    h.check("offered_duty_not_above_the_unassigned_remainder", r <= smax(0.0, limit - Qa))


def ob_assign_u(h):
    """ASSIGN for ANY number of utilities on one side: the loop of _assign_utility is cut (pvc/loopcut.py) with

        INV(i):  0 <= Q_assigned <= limit,   Q_assigned = A(i)          ghost A(0) = 0, A(i+1) = A(i) + (duty of utility i after its turn)
        element  utility i ends with duty d' where 0 <= d' and A(i) + d' <= limit; its level is untouched; CP' * span = d' if it was assigned

    with _maximise_utility_duty replaced by its contract MAXIMISE (C03.maximise.b) and a recorder for the call-site contract "the running total and the
    utility's own temperatures (shifted or real as requested, hot end first on the hot side) are what is passed".  Utilities start from zero duty
    (C03.utilities_list.b).  A `break` leaves the loop from inside the generic iteration: the same element clauses are stated on that path."""
    import z3
    from pvc.loopcut import CutSeq
    from pvc.sym import SymInt, SymReal
    hot = h.choice("hot_side", [True, False])
    real_T = h.choice("real_temperatures", [False, True])
    nrows = 3
    T = [100.0, 90.0, 80.0]
    H = h.reals("H", nrows)
    p = 2 if hot else 0
    limit = H[0] if hot else H[nrows - 1]
    h.assume(limit >= 0)
    n = SymInt(z3.Int("n_utilities"))
    h.assume(n >= 0)
    I, R = z3.IntSort(), z3.RealSort()
    ts, tt, dt, A = (z3.Function(k, I, R) for k in ("ut_t_supply", "ut_t_target", "ut_dt_cont", "assigned_up_to"))
    h.ctx.add_axiom(A(z3.IntVal(0)) == 0)
    zi = lambda i: i.z if isinstance(i, SymInt) else z3.IntVal(i)
    calls = []

    def maximise(T_segment, H_segment, Ts, Tt, is_hot_ut, Q_assigned):
        r = h.fresh_real("offered")
        h.assume(And(r >= 0, r <= smax(0.0, limit - Q_assigned)))          # MAXIMISE (C03.maximise.b)
        calls.append((Ts, Tt, is_hot_ut, Q_assigned, r))
        return r
    h.stub(ut, "_maximise_utility_duty", maximise)

    def elem(i):
        z = zi(i)
        h.ctx.add_axiom(z3.And(dt(z) >= 0, (ts(z) > tt(z)) if hot else (ts(z) < tt(z))))
        return Stream("Ui", SymReal(ts(z)), SymReal(tt(z)), dt_cont=SymReal(dt(z)), heat_flow=0.0, htc=1.0, is_process_stream=False)

    def inv(i, L):
        return [("running_total_not_negative", L["Q_assigned"] >= 0), ("running_total_not_above_the_side_target", L["Q_assigned"] <= limit),
                ("running_total_is_the_sum_of_the_assigned_duties", h.eq(L["Q_assigned"], SymReal(A(zi(i)))))]

    def havoc(i, L):
        return {"Q_assigned": h.fresh_real("Q_assigned")}

    def ghost(i, L, e):
        h.ctx.add_axiom(A(zi(i) + 1) == A(zi(i)) + (e._heat_flow.z if isinstance(e._heat_flow, SymReal) else e._heat_flow))

    def element_clauses(i, e, before):
        d = e._heat_flow
        out = [("duty_not_negative", d >= 0), ("assigned_so_far_not_above_the_side_target", before + d <= limit),
               ("level_untouched", And(h.eq(e._t_supply, SymReal(ts(zi(i)))), h.eq(e._t_target, SymReal(tt(zi(i)))))),
               ("heat_capacity_goes_with_the_duty", h.eq(e._CP * (e._t_max - e._t_min), d)),
               ("exactly_one_offer_per_utility", len(calls) == 1)]
        if len(calls) == 1:
            Ts, Tt, is_hot_ut, Qa, r = calls[0]
            want = ((e.t_max, e.t_min) if real_T else (e.t_max_star, e.t_min_star)) if hot else ((e.t_min, e.t_max) if real_T else (e.t_min_star, e.t_max_star))
            out.append(("offer_is_asked_for_this_utilitys_own_temperatures_and_the_running_total", And(h.eq(Ts, want[0]), h.eq(Tt, want[1]), is_hot_ut is hot, h.eq(Qa, before))))
            out.append(("duty_is_the_offer_or_untouched", Or(h.eq(d, r), And(h.eq(d, 0.0), r <= tol))))
        return out

    HEAP = ("_heat_flow", "_CP", "_RCP_prod", "_ut_cost")
    seq = CutSeq(h, "utilities", n, elem, inv, havoc, modifies=lambda L: [(seq.it.e if hasattr(seq.it, "e") else cur[0], a) for a in HEAP], ghost=ghost,
                 elem_post=lambda i, L, e: element_clauses(i, e, seq.it.state["Q_assigned"]))
    cur = [None]
    _elem = seq.elem
    seq.elem = lambda i: cur.__setitem__(0, _elem(i)) or cur[0]
    arr = npx.array
    out = ut._assign_utility(arr(T), arr(H), seq, p, is_hot_ut=hot, is_real_temperatures=real_T)
    h.check("returns_the_list_it_was_given", out is seq)
    if seq.left_early:
        # `break` inside the generic iteration: the element clauses on that path (the ghost sum is not needed: nothing follows)
        for nm, cl in element_clauses(seq.it.i, seq.it.e, seq.it.state["Q_assigned"]):
            h.check(f"utilities.on_break.{nm}", cl)


# ---- CLOSURE / REACH ----------------------------------------------------------------------------------


def _profile(h, n, p, hot_side, gap=1):
    """Monotone load profile on a table of n rows (T symbolic, >= 1 K apart): heating profile = Qh at the top,
    non-increasing, 0 from the hot-pinch row p downwards; cooling profile mirrored."""
    T = h.reals("T", n)
    for i in range(n - 1):
        h.assume(T[i] - T[i + 1] >= gap)
    Hs = h.reals("H", n)
    for i in range(n):
        h.assume(Hs[i] >= 0)
    if hot_side:
        for i in range(p, n):
            h.assume(Hs[i] == 0)
        for i in range(p):
            h.assume(Or(Hs[i] == Hs[i + 1], Hs[i] - Hs[i + 1] > tol))
        h.assume(Hs[0] > tol)
    else:
        for i in range(0, p + 1):
            h.assume(Hs[i] == 0)
        for i in range(p, n - 1):
            h.assume(Or(Hs[i + 1] == Hs[i], Hs[i + 1] - Hs[i] > tol))
        h.assume(Hs[n - 1] > tol)
    return T, Hs


def _utilities(h, k, hot_side, T, Hs, last_kind):
    """k utilities ordered as _create_utilities_list orders them; the last one served is SUFFICIENT or the DEFAULT."""
    n = len(T)
    # extreme temperature of the demand: highest row where the heating profile still changes / lowest for cooling
    us = []
    for i in range(k):
        ts = h.real(f"u{i}_Ts")          # shifted supply level
        g = h.real(f"u{i}_glide")
        h.assume(And(g >= 0.01, g <= 50))
        dt = 0.0
        if hot_side:
            s = Stream(f"HU{i}", ts, ts - g, dt_cont=dt, heat_flow=0.0, is_process_stream=False)
        else:
            s = Stream(f"CU{i}", ts, ts + g, dt_cont=dt, heat_flow=0.0, is_process_stream=False)
        us.append(s)
    # order: utility collections iterate by DESCENDING supply temperature on both sides (C03.utilities_list.b); the assignment walks the
    # hot list backwards and the cold list forwards, i.e. lowest grade first; the utility served last is the hottest hot / coldest cold one
    for a, b in zip(us, us[1:]):
        h.assume(a.t_supply > b.t_supply)
    last = us[0] if hot_side else us[-1]
    if hot_side:
        dem_top = T[0]
        for i in range(n - 1):          # top of the demand: first row from the top where the profile starts to fall
            pass
        if last_kind == "sufficient":
            h.assume(last.t_min_star >= T[0])
        else:
            h.assume(h.eq(last.t_max_star, T[0]))
            h.assume(h.eq(last.t_max_star - last.t_min_star, DT_PC))
            # recorded finding: demand within one phase-change step of the anchoring temperature cannot be served by the default
            h.exclude_known("KF-C03-default-glide", Or(*[And(T[i] > T[0] - DT_PC, Hs[i - 1] > Hs[i]) for i in range(1, n)]))
    else:
        if last_kind == "sufficient":
            h.assume(last.t_max_star <= T[n - 1])
        else:
            h.assume(h.eq(last.t_min_star, T[n - 1]))
            h.assume(h.eq(last.t_max_star - last.t_min_star, DT_PC))
            h.exclude_known("KF-C03-default-glide", Or(*[And(T[i] < T[n - 1] + DT_PC, Hs[i + 1] > Hs[i]) for i in range(0, n - 1)]))
    return us


def _ob_assign(nmax, kmax, gap=1):
    def ob(h):
        hot_side = h.choice("hot_side", [True, False])
        n = h.choice("rows", list(range(2, nmax + 1)))
        p = h.choice("pinch_row", list(range(n)))
        if (hot_side and p == 0) or (not hot_side and p == n - 1):
            return       # no demand on that side
        k = h.choice("utilities", list(range(1, kmax + 1)))
        last_kind = h.choice("last_utility", ["sufficient", "default"])
        T, Hs = _profile(h, n, p, hot_side, gap)
        us = _utilities(h, k, hot_side, T, Hs, last_kind)
        mk = npx.array if h.symbolic else (lambda x: __import__("numpy").array(x, dtype=float))
        # the stored cooling profile is negative (C07.split); _target_utility flips it
        Harr = mk(list(Hs)) if hot_side else mk([-x for x in Hs])
        ut._target_utility(us, mk(list(T)), Harr, p if hot_side else 0, p if not hot_side else n - 1)
        total = Hs[0] if hot_side else Hs[n - 1]
        duties = [u.heat_flow for u in us]
        for d in duties:
            h.check("every_duty_non_negative", d >= 0)
        h.check("duties_sum_to_the_target", h.eq(sum(duties, 0.0), total, tol=2 * tol))
        for u in us:
            if hot_side:
                cannot_reach = And(*[Or(Hs[i - 1] == Hs[i], u.t_max_star < T[i - 1] - tol) for i in range(1, n)])
            else:
                cannot_reach = And(*[Or(Hs[i + 1] == Hs[i], u.t_min_star > T[i + 1] + tol) for i in range(0, n - 1)])
            h.check("no_duty_to_a_utility_that_reaches_no_row_with_demand", Implies(cannot_reach, u.heat_flow == 0))
    return ob


def obligations():
    fa = [ut._target_utility, ut._assign_utility, ut._maximise_utility_duty, Stream.set_heat_flow]
    obs = [
        Obligation("C03.extremes", ob_extremes, kind="bounded", bound="0..2 hot and 0..2 cold streams (loop unrolled)", functions=[dp._find_extreme_process_temperatures]),
        Obligation("C03.default.decision", ob_decision, kind="bounded", bound="0..2 supplied utilities, all attribute values symbolic (loop unrolled)",
                   functions=[dp._complete_utility_data], max_paths=200000),
        Obligation("C03.default.placement", ob_placement, kind="proof", functions=[dp._create_default_utility, dp._add_default_utilities],
                   stubs=("pydantic UtilitySchema.model_validate",)),
        Obligation("C03.utilities_list.b", ob_utilities_list, kind="bounded", bound="1..2 utility records of any type / activity, all values symbolic", functions=[dp._create_utilities_list],
                   max_paths=100000),
        Obligation("C03.maximise.b", ob_maximise, kind="bounded", bound="load profiles of 2..3 rows (>= 1 K apart) that nowhere exceed their end value, every cell, both utility temperatures and the running total symbolic; both sides",
                   functions=[ut._maximise_utility_duty], max_paths=200000, expect=("offered_duty_not_above_the_unassigned_remainder",),
                   doc="MAXIMISE: 0 <= offered duty <= what is still unassigned (callee contract of C03.assign.u)"),
        Obligation("C03.assign.u", ob_assign_u, kind="proof", functions=[ut._assign_utility, Stream.set_heat_flow], stubs=("_maximise_utility_duty (contract MAXIMISE, C03.maximise.b)",), max_paths=100000,
                   expect=("utilities.base.running_total_is_the_sum_of_the_assigned_duties", "utilities.preserved.running_total_not_above_the_side_target", "utilities.element.duty_not_negative",
                           "utilities.frame", "utilities.on_break.duty_not_negative"),
                   bound="ANY number of utilities on one side at arbitrary levels (loop cut with an inductive invariant and a ghost sum); 3-row profile, both sides, shifted and real temperatures",
                   doc="ASSIGN for every number of utilities: no duty negative, the duties assigned so far never exceed the side's target, levels untouched, CP goes with the duty"),
        Obligation("C03.window", ob_window, kind="bounded", bound="tables of 2..5 rows, pinch on any row, both sides (path-complete over the pinch row)", functions=[ut._assign_utility]),
    ]
    base = Obligation("C03.assign.b", _ob_assign(4, 2), kind="bounded", functions=fa, max_paths=400000, timeout_ms=20000,
                      bound="monotone profiles of 2..4 rows, 1..2 utilities per side, levels / glides / enthalpies symbolic", doc="CLOSURE, non-negativity, REACH")
    obs += split(base, hot_side=[True, False], rows=[2, 3, 4], utilities=[1, 2])
    fine = Obligation("C03.assign.fine.b", _ob_assign(3, 1, gap=0.005), kind="bounded", functions=fa, max_paths=400000, timeout_ms=20000,
                      bound="monotone profiles of 2..3 rows that may lie closer together than the default utility's 0.1 K glide, one utility per side",
                      doc="CLOSURE with rows inside the default utility's glide (latent streams at the end of the temperature range)")
    obs += split(fine, hot_side=[True, False])
    # the assignment is made on the load profiles derived from the POCKET-FREE curve: those callee contracts (C07) are discharged here too,
    # so that a change to the pocket sweep is reported for this property as well
    from . import C07
    for o in C07.obligations():
        if o.tier == "quick" and (o.name.startswith("C07.np.") or o.name.startswith("C07.split")) and "sawtooth4" not in o.name and "sawtooth5" not in o.name:
            obs.append(Obligation(o.name.replace("C07.", "C03.dep."), o.fn, kind=o.kind, functions=o.functions, bound=o.bound, max_paths=o.max_paths, params=o.params,
                                  timeout_ms=o.timeout_ms, expect=o.expect, stubs=o.stubs, doc="(callee contract, shared with C07) " + (o.doc or "")))
    return obs
