"""C04 -- utility profiles are thermodynamically feasible and lowest-grade-first.

On the shifted scale, with H(T) the pocket-free process GCC on the utility's side of the pinch (the heating resp. cooling profile, C07) and
U(T) the utility GCC produced by the REAL get_utility_heat_cascade from the duties the REAL _target_utility assigned:

  FEASIBLE   0 <= U(T_i) <= H(T_i) at every row (no utility supplies heat below, or removes heat above, the level where the process can use it)
  MAXIMAL    an isothermal-like utility occupying one row interval [T_a+1, T_a] that is served first (lowest grade) carries exactly the whole
             demand below its level, H(T_a) -- the closed-form optimum; the next grade carries the remainder

Utility levels are placed on rows of the table (they are rows in the pipeline: the grid is built from process AND utility streams).
"""
from __future__ import annotations

import OpenPinch.analysis.problem_table_analysis as pta
import OpenPinch.analysis.utility_targeting as ut
from OpenPinch.classes.stream import Stream
from OpenPinch.classes.stream_collection import StreamCollection
from pvc.engine import Obligation, split
from pvc.npshim import NP as npx
from pvc.sym import And, Implies, Not, Or

from .shared import PT, tol

LEVEL = "exploration"
LEVEL_TEXT = ("Bounded symbolic execution of the real _target_utility + get_utility_heat_cascade on monotone profiles of 3..5 rows with 1..2 utilities per "
              "side whose levels lie on rows (temperatures, enthalpies symbolic): feasibility of the resulting utility GCC at every row and the closed-form "
              "optimum for the lowest-grade isothermal-like utility. Complete within the bound only.")
ASSUMPTIONS = ["utility levels coincide with rows of the table (GAP: true in the pipeline, where the grid is built from process and utility streams)",
               "TOLSAFE on rows (>= 1 K apart) and enthalpy steps (0 or > tol)"]
NOT_COVERED = ["utility ladders of more than two levels per side; glide-limited optimum for utilities spanning several rows (feasibility only)"]


def _profile(h, n, p, hot_side):
    T = h.reals("T", n)
    for i in range(n - 1):
        h.assume(T[i] - T[i + 1] >= 1)
    Hs = h.reals("H", n)
    for i in range(n):
        h.assume(Hs[i] >= 0)
    if hot_side:
        for i in range(p, n):
            h.assume(Hs[i] == 0)
        for i in range(p):
            h.assume(Or(Hs[i] == Hs[i + 1], Hs[i] - Hs[i + 1] > tol))
        h.assume(Hs[0] > tol)
    else:
        for i in range(0, p + 1):
            h.assume(Hs[i] == 0)
        for i in range(p, n - 1):
            h.assume(Or(Hs[i + 1] == Hs[i], Hs[i + 1] - Hs[i] > tol))
        h.assume(Hs[n - 1] > tol)
    return T, Hs


def _coll(us):
    c = StreamCollection()
    for u in us:
        c.add(u)
    return c


def _ob(nmax):
    def ob(h):
        hot_side = h.choice("hot_side", [True, False])
        n = h.choice("rows", list(range(3, nmax + 1)))
        p = h.choice("pinch_row", list(range(1, n)) if hot_side else list(range(0, n - 1)))
        k = h.choice("utilities", [1, 2])
        T, Hs = _profile(h, n, p, hot_side)
        # utility i occupies the row interval [lo_i, lo_i + span_i] (supply and target on rows); the last served one covers the far end
        us, spans = [], []
        for i in range(k):
            a = h.choice(f"u{i}_supply_row", list(range(0, n - 1)) if hot_side else list(range(1, n)))
            b = h.choice(f"u{i}_target_row", [j for j in (range(a + 1, n) if hot_side else range(0, a))])
            us.append(Stream(f"{'HU' if hot_side else 'CU'}{i}", T[a], T[b], dt_cont=0.0, heat_flow=0.0, is_process_stream=False))
            spans.append((a, b))
        # recorded finding: for a utility whose glide spans more than one row interval the slope limit pairs the demand of the row ABOVE an
        # interval with the temperature of the row below it, and the assigned duty can exceed what the process can take at the lower rows
        h.exclude_known("KF-C04-glide-infeasible", any(abs(a - b) > 1 for a, b in spans))
        if k == 2:
            h.assume(us[0].t_supply > us[1].t_supply)            # collections iterate hottest first
        last = us[0] if hot_side else us[-1]
        far = 0 if hot_side else n - 1
        # the highest-grade utility is anchored at the end of the range (like the default utility) -- or not: a ladder that cannot reach
        # the end leaves the side unbalanced, but what it is given must still be feasible (FEASIBLE does not presuppose closure)
        if h.choice("highest_grade_anchored_at_the_end", [True, False]):
            h.assume(h.eq(last.t_supply, T[far]))
        else:
            h.assume(Not(h.eq(last.t_supply, T[far])))
        mk = npx.array if h.symbolic else (lambda x: __import__("numpy").array(x, dtype=float))
        prof = mk(list(Hs)) if hot_side else mk([-x for x in Hs])
        ut._target_utility(us, mk(list(T)), prof, p if hot_side else 0, p if not hot_side else n - 1)
        duties = [u.heat_flow for u in us]
        total = Hs[far]
        casc = pta.get_utility_heat_cascade(mk(list(T)), _coll(us) if hot_side else None, _coll(us) if not hot_side else None, is_shifted=True)
        U = list(casc[PT.H_NET_UT.value])
        slack = n * tol
        for i in range(n):
            h.check("utility_gcc_non_negative", U[i] >= -slack)
            h.check("utility_gcc_not_above_process_gcc", U[i] <= Hs[i] + slack)
        h.check("utility_gcc_reaches_the_target_at_the_far_end", Implies(And(sum(duties, 0.0) - total <= slack, total - sum(duties, 0.0) <= slack),
                                                                         And(U[far] - total <= slack, total - U[far] <= slack)))
        # MAXIMAL for the utility served first when it is isothermal-like (one row interval) and another grade follows
        if k == 2:
            first = us[-1] if hot_side else us[0]
            a, b = spans[-1] if hot_side else spans[0]
            if abs(a - b) == 1:
                h.check("lowest_grade_utility_carries_all_demand_beyond_its_level", And(first.heat_flow - Hs[a] <= slack, Hs[a] - first.heat_flow <= slack))
    return ob


def obligations():
    fs = [ut._target_utility, ut._assign_utility, ut._maximise_utility_duty, pta.get_utility_heat_cascade, pta.problem_table_algorithm]
    base = Obligation("C04.feasible.b", _ob(4), kind="bounded", functions=fs, max_paths=400000, timeout_ms=30000,
                      bound="monotone profiles of 3..4 rows, 1..2 utilities per side with levels on rows, temperatures and enthalpies symbolic", doc="FEASIBLE, MAXIMAL")
    obs = split(base, hot_side=[True, False], rows=[3, 4], utilities=[1, 2])
    big = Obligation("C04.feasible5.b", _ob(5), kind="bounded", tier="thorough", functions=fs, max_paths=4000000, timeout_ms=60000, time_budget_s=3000,
                     bound="profiles of 5 rows, 1..2 utilities per side")
    obs += split(big, hot_side=[True, False], rows=[5], utilities=[1, 2])
    # the assignment works on the load profiles derived from the POCKET-FREE curve: its contracts (C07: envelope, breakpoints, split into
    # monotone load profiles) are what FEASIBLE is stated against, and are discharged here as well so that a change to those functions is
    # reported for this property too
    from . import C07
    for o in C07.obligations():
        if o.tier == "quick" and (o.name.startswith("C07.np.") or o.name.startswith("C07.split")) and "sawtooth4" not in o.name and "sawtooth5" not in o.name:
            obs.append(Obligation(o.name.replace("C07.", "C04.dep."), o.fn, kind=o.kind, functions=o.functions, bound=o.bound, max_paths=o.max_paths, params=o.params,
                                  timeout_ms=o.timeout_ms, expect=o.expect, stubs=o.stubs, doc="(callee contract, shared with C07) " + (o.doc or "")))
    return obs
