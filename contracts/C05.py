"""C05 -- composite curves and problem tables are faithful to the streams.

For BOTH temperature scales the table returned by get_process_heat_cascade must satisfy, row by row,

    ROWINV     dT_i = T_{i-1} - T_i; dH_x,i = CP_x,i dT_i; H_hot/H_cold/H_net step by their dH; CP_net = CP_cold - CP_hot
    CONTENT    H_hot(T_k) = sum_hot CP_s (heat-carrying span of s below T_k on that scale); H_cold likewise up to one
               horizontal offset; H_net = H_cold - H_hot; H_net >= 0 and touches 0 on the shifted scale
    SPANS      each curve spans exactly the duty of its streams
    SAME       the real-temperature table, shifted to the known heat recovery, reports the shifted Qh, Qc, Qr
    PROJECTION rows inserted by the constant-enthalpy projection lie strictly inside the table, on the opposite curve

Preconditions ONGRID and SEP (on the scale in question) as in C01.
"""
from __future__ import annotations

import OpenPinch.analysis.problem_table_analysis as pta
from pvc.engine import Obligation, split
from pvc.sym import And, Implies, Not, Or

from .C01 import assume_sep, mk_streams, split_kinds
from .C08 import check_wf
from . import unbounded
from .shared import COLD, HOT, PT, tol

LEVEL = "exploration"
LEVEL_TEXT = ("Bounded symbolic execution of the real get_process_heat_cascade (both scales, with the shift to a known heat recovery and the "
              "constant-enthalpy projection) on 1..2 streams with all temperatures and contributions symbolic; every row of both tables is compared "
              "with the streams' exact heat content; clauses proved per path by z3. Complete within the bound, under ONGRID and SEP.")
ASSUMPTIONS = ["ONGRID, SEP on both temperature scales (KF-C01-unseparated otherwise)", "stream duties are non-negative (schema)"]


def heat_below(streams, T, kind, star):
    tot = 0.0
    for s in streams:
        if s.type != kind:
            continue
        lo, hi = (s.t_min_star, s.t_max_star) if star else (s.t_min, s.t_max)
        top = hi if hi < T else T
        span = top - lo
        if span < 0:
            span = 0.0
        tot = tot + (s.heat_flow / (hi - lo)) * span
    return tot


def check_rows(h, pt, tag):
    n = len(pt)
    g = lambda i, c: pt.loc[i, c]
    for i in range(1, n):
        h.check(tag + "width_is_gap_to_row_above", h.eq(g(i, PT.DELTA_T.value), g(i - 1, PT.T.value) - g(i, PT.T.value)))
        h.check(tag + "hot_curve_steps_by_dH", h.eq(g(i - 1, PT.H_HOT.value) - g(i, PT.H_HOT.value), g(i, PT.DELTA_H_HOT.value)))
        h.check(tag + "cold_curve_steps_by_dH", h.eq(g(i - 1, PT.H_COLD.value) - g(i, PT.H_COLD.value), g(i, PT.DELTA_H_COLD.value)))
        h.check(tag + "net_curve_steps_by_dH", h.eq(g(i, PT.H_NET.value) - g(i - 1, PT.H_NET.value), -g(i, PT.DELTA_H_NET.value)))
    for i in range(n):
        h.check(tag + "dH_hot_is_CP_times_width", h.eq(g(i, PT.DELTA_H_HOT.value), g(i, PT.CP_HOT.value) * g(i, PT.DELTA_T.value)))
        h.check(tag + "dH_cold_is_CP_times_width", h.eq(g(i, PT.DELTA_H_COLD.value), g(i, PT.CP_COLD.value) * g(i, PT.DELTA_T.value)))
        h.check(tag + "dH_net_is_CP_times_width", h.eq(g(i, PT.DELTA_H_NET.value), g(i, PT.CP_NET.value) * g(i, PT.DELTA_T.value)))
        h.check(tag + "CP_net_is_cold_minus_hot", h.eq(g(i, PT.CP_NET.value), g(i, PT.CP_COLD.value) - g(i, PT.CP_HOT.value)))
        h.check(tag + "net_is_cold_minus_hot", h.eq(g(i, PT.H_NET.value), g(i, PT.H_COLD.value) - g(i, PT.H_HOT.value)))


def check_content(h, pt, streams, star, tag):
    n = len(pt)
    q_hot = sum([s.heat_flow for s in streams if s.type == HOT], 0.0)
    q_cold = sum([s.heat_flow for s in streams if s.type == COLD], 0.0)
    off = pt.loc[n - 1, PT.H_COLD.value]          # the documented horizontal offset of the cold curve
    for k in range(n):
        Tk = pt.loc[k, PT.T.value]
        h.check(tag + "hot_curve_is_heat_of_hot_streams_below_T", h.eq(pt.loc[k, PT.H_HOT.value], heat_below(streams, Tk, HOT, star)))
        h.check(tag + "cold_curve_is_heat_of_cold_streams_below_T_plus_offset", h.eq(pt.loc[k, PT.H_COLD.value] - off, heat_below(streams, Tk, COLD, star)))
    h.check(tag + "hot_curve_spans_hot_duty", h.eq(pt.loc[0, PT.H_HOT.value] - pt.loc[n - 1, PT.H_HOT.value], q_hot))
    h.check(tag + "cold_curve_spans_cold_duty", h.eq(pt.loc[0, PT.H_COLD.value] - pt.loc[n - 1, PT.H_COLD.value], q_cold))
    return q_hot, q_cold


def _ob_table(cp_values, star):
    def ob(h):
        m = h.choice("streams", [1, 2])
        streams = mk_streams(h, m, cp_values=cp_values)
        assume_sep(h, streams, star=star)
        hot, cold, allc = split_kinds(streams)
        h.stub(pta, "_insert_temperature_interval_into_pt_at_constant_h", lambda pt: pt)   # PROJECTION is C05.projection.b
        if star:
            pt = pta.get_process_heat_cascade(hot_streams=hot, cold_streams=cold, all_streams=allc, zone_config=None, is_shifted=True)
            tag = "shifted."
        else:
            # modular: the heat recovery handed over from the shifted table is an arbitrary real here; C01 proves what it is
            known = h.real("known_heat_recovery")
            pt = pta.get_process_heat_cascade(hot_streams=hot, cold_streams=cold, all_streams=allc, zone_config=None, is_shifted=False,
                                              known_heat_recovery=known)
            tag = "real."
        check_rows(h, pt, tag)
        q_hot, q_cold = check_content(h, pt, streams, star, tag)
        n = len(pt)
        Hn = [pt.loc[k, PT.H_NET.value] for k in range(n)]
        if star:
            h.check("shifted.net_non_negative", And(*[x >= 0 for x in Hn]))
            h.check("shifted.net_touches_zero", Or(*[x == 0 for x in Hn]))
        else:
            # SAME: with Qr handed over, the real table's end values are the targets that Qr implies (C02's balance):
            # Qc = hot duty - Qr, Qh = Qc + cold duty - hot duty -- exactly what the shifted table reports (C01)
            h.check("real.reports_the_known_heat_recovery", h.eq(pta.get_heat_recovery_target_from_pt(pt), known))
            h.check("real.Qc_is_hot_duty_minus_known_recovery", h.eq(Hn[n - 1], q_hot - known))
            h.check("real.Qh_is_cold_duty_minus_known_recovery", h.eq(Hn[0], q_cold - known))
    return ob


def ob_projection(h):
    """Rows inserted at constant enthalpy: strictly inside the table, on the opposite composite curve."""
    n = h.choice("rows", [2, 3, 4])
    from .C08 import rows as snapshot, wf_table, check_same_curve
    pt, d = wf_table(h, n, with_np=False)
    # composite curves as the cascade leaves them: non-increasing downwards, hot curve ends at 0
    Hh, Hc = d[PT.H_HOT.value], d[PT.H_COLD.value]
    for i in range(n - 1):
        h.assume(And(Hh[i] >= Hh[i + 1], Hc[i] >= Hc[i + 1]))
    h.assume(And(Hh[n - 1] == 0, Hc[n - 1] >= 0))
    old = snapshot(pt)
    before = len(pt)
    pta._insert_temperature_interval_into_pt_at_constant_h(pt)
    check_wf(h, pt, "projection.")
    check_same_curve(h, old, pt, False, tag="projection.")
    h.check("projection.first_row_unchanged", h.eq(pt.loc[0, PT.T.value], d[PT.T.value][0]))
    h.check("projection.last_row_unchanged", h.eq(pt.loc[len(pt) - 1, PT.T.value], d[PT.T.value][n - 1]))
    oldT = [r[PT.T.value] for r in old]
    for j in range(len(pt)):
        Tj = pt.loc[j, PT.T.value]
        if any(bool(h.eq(Tj, t)) for t in oldT):
            continue
        on_cold = And(pt.loc[j, PT.H_COLD.value] - Hh[0] <= tol, Hh[0] - pt.loc[j, PT.H_COLD.value] <= tol)
        on_hot = And(pt.loc[j, PT.H_HOT.value] - Hc[n - 1] <= tol, Hc[n - 1] - pt.loc[j, PT.H_HOT.value] <= tol)
        h.check("projection.new_row_is_on_the_opposite_curve_at_the_end_enthalpy", Or(on_cold, on_hot))


def obligations():
    fs = [pta.get_process_heat_cascade, pta.create_problem_table_with_t_int, pta._sum_mcp_between_temperature_boundaries, pta.problem_table_algorithm,
          pta._shift_pt_to_set_heat_recovery, pta.get_heat_recovery_target_from_pt]
    D = ["hot", "cold", "latent"]
    obs = []
    for star, nm in ((True, "shifted"), (False, "real")):
        base = Obligation(f"C05.table.{nm}.b", _ob_table((1.0, 3.0), star), kind="bounded", functions=fs, max_paths=200000, timeout_ms=30000,
                          bound="1..2 streams; temperatures and contributions symbolic, heat-capacity flow rates from {1, 3} kW/K",
                          doc=f"ROWINV, CONTENT, SPANS on the {nm}-temperature table" + ("" if star else "; SAME (targets implied by the known heat recovery)"))
        obs += split(base, streams=[1]) + split(base, streams=[2], s0_dir=D, s1_dir=D)
    obs.append(unbounded.cascade_obligation("C05.cascade.rows.u"))
    obs += split(unbounded.content_obligation("C05.content.rows.u"), hot_streams=[1, 2], side=["hot", "cold"], is_shifted=[True, False])
    # symbolic heat-capacity flow rates: one stream (with two, the induction step is a product-of-unknowns identity the solver does not
    # decide within the budget; the {1, 3} kW/K instances above cover two streams)
    obs += split(unbounded.content_cp_obligation("C05.content.rows.cp.u"), hot_streams=[1], side=["hot", "cold"], is_shifted=[True, False])
    obs.append(Obligation("C05.projection.b", ob_projection, kind="bounded", bound="tables of 2..4 rows with monotone composite curves, all values symbolic",
                          functions=[pta._insert_temperature_interval_into_pt_at_constant_h, pta._get_T_start_on_opposite_cc], max_paths=100000,
                          doc="PROJECTION: inserted rows inside the table and on the opposite curve; curves unchanged"))
    return obs
