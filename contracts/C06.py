"""C06 -- reported pinch temperatures are where the exact cascade is pinched.

`ProblemTable.pinch_idx` / `pinch_temperatures` are verified against the property's own wording over an
ARBITRARY residual column (every cell an independent real), so the clauses hold whatever cascade
produced it; that the residual IS the exact cascade is C01/C05's postcondition.
"""
from __future__ import annotations

from OpenPinch.classes.energy_target import EnergyTarget
from OpenPinch.classes.problem_table import ProblemTable
from pvc.engine import Obligation
from pvc.sym import And, Implies, Not, Or

from . import unbounded
from .shared import PT, table, tol

LEVEL = "exploration"
LEVEL_TEXT = ("Bounded symbolic execution of the real pinch_idx / pinch_temperatures / serialize_json: every residual column of 2..6 rows "
              "(all cells independent reals, so every zero pattern, threshold and multiple-pinch shape of that size) is covered, each clause "
              "proved per path by z3; complete within the bound, not beyond it.")
NOT_COVERED = []


def _spec(h, n, zero, rh, rc, valid):
    """The property's wording, over the zero mask of the residual."""
    has_zero = Or(*zero)
    all_zero = And(*zero)
    h.exclude_known("KF-C06-all-zero", all_zero)
    h.check("absent_only_if_no_zero", Implies(Not(valid), Not(has_zero)))
    h.check("valid_iff_hot_not_below_cold", (rh <= rc) == valid)
    if not valid:
        return
    h.check("hot_pinch_row_is_a_zero", zero[rh])
    h.check("cold_pinch_row_is_a_zero", zero[rc])
    # hot side: ordinary = first zero; threshold (row 0 is zero) = last row of the leading zero run
    lead = [And(*zero[: k + 1]) for k in range(n)]        # rows 0..k all zero
    trail = [And(*zero[k:]) for k in range(n)]            # rows k..n-1 all zero
    for k in range(n):
        between = (rh <= k) and (k <= rc)
        ok = Or(between, lead[k], trail[k])
        h.check("every_zero_between_or_in_touching_run", Implies(zero[k], ok))
    h.check("hot_pinch_rule", sym_if(zero[0], And(lead[rh], True if rh == n - 1 else Not(zero[rh + 1])),
                                     And(*[Not(zero[k]) for k in range(rh)])))
    h.check("cold_pinch_rule", sym_if(zero[n - 1], And(trail[rc], True if rc == 0 else Not(zero[rc - 1])),
                                      And(*[Not(zero[k]) for k in range(rc + 1, n)])))


def sym_if(c, a, b):
    return And(Implies(c, a), Implies(Not(c), b))


def _ob_idx(nmax):
    def ob(h):
        n = h.choice("rows", list(range(2, nmax + 1)))
        pt, d = table(h, n, [PT.H_NET.value])
        H = d[PT.H_NET.value]
        zero = [abs(x) < tol for x in H]
        rh, rc, valid = pt.pinch_idx()
        h.check("rows_in_range", And(0 <= rh, rh < n, 0 <= rc, rc < n))
        _spec(h, n, zero, int(rh), int(rc), bool(valid))
        th, tc = pt.pinch_temperatures()
        if valid:
            h.check("temperatures_are_the_rows", And(h.eq(th, d[PT.T.value][int(rh)]), h.eq(tc, d[PT.T.value][int(rc)])))
            h.check("hot_not_colder_than_cold", th >= tc)
        else:
            h.check("absent_reported_as_none", th is None and tc is None)
    return ob


def ob_other_column(h):
    """The same rule applies to whichever residual column is named (utility GCC of the site record)."""
    n = h.choice("rows", [2, 3, 4])
    pt, d = table(h, n, [PT.H_NET.value, PT.H_NET_UT.value])
    a = pt.pinch_idx(PT.H_NET_UT)
    b = pt.pinch_idx(PT.H_NET_UT.value)
    h.check("enum_and_text_column_agree", a[0] == b[0] and a[1] == b[1] and bool(a[2]) == bool(b[2]))
    zero = [abs(x) < tol for x in d[PT.H_NET_UT.value]]
    _spec(h, n, zero, int(a[0]), int(a[1]), bool(a[2]))


def ob_serialise(h):
    """serialize_json: both pinches given -> collapsed to one field iff they coincide within tol."""
    t = object.__new__(EnergyTarget)
    hot, cold = h.real("hot_pinch"), h.real("cold_pinch")
    h.assume(hot >= cold)

    class Cfg:
        DO_TURBINE_WORK = False
        DO_AREA_TARGETING = False
        DO_EXERGY_TARGETING = False
    for k, v in dict(name="Z/DI", degree_of_int=None, hot_utility_target=h.real("Qh"), cold_utility_target=h.real("Qc"),
                     heat_recovery_target=h.real("Qr"), utility_cost=0.0, hot_pinch=hot, cold_pinch=cold, config=Cfg,
                     hot_utilities=[], cold_utilities=[]).items():
        object.__setattr__(t, k if k in ("name", "config") else k, v) if False else None
    # EnergyTarget stores through properties; set the backing fields it reads
    d = _call_serialise(t, hot, cold, h)
    tp = d["temp_pinch"]
    if abs(hot - cold) < tol:
        h.check("collapsed_when_equal", set(tp) == {"cold_temp"} and h.eq(tp["cold_temp"], cold) is not False)
        h.check("collapsed_value", h.eq(tp["cold_temp"], cold))
    else:
        h.check("both_reported", h.eq(tp["cold_temp"], cold))
        h.check("both_reported_hot", h.eq(tp["hot_temp"], hot))


def ob_record(h):
    """From the results dictionary of a direct integration to the record and its serialised summary: the two pinch temperatures arrive
    unchanged whatever their value (zero and negative temperatures included); an absent pinch stays absent."""
    from OpenPinch.classes.zone import Zone
    z = Zone(name="Z")
    kind = h.choice("pinch", ["both", "none"])
    th, tc = (h.real("hot_pinch"), h.real("cold_pinch")) if kind == "both" else (None, None)
    if kind == "both":
        h.assume(th >= tc)
    z.add_target_from_results("Direct Integration", {"hot_pinch": th, "cold_pinch": tc, "hot_utility_target": h.real("Qh"), "cold_utility_target": h.real("Qc"),
                                                     "heat_recovery_target": h.real("Qr")})
    t = z.targets["Z/Direct Integration"]
    if kind == "both":
        h.check("record_keeps_hot_pinch", h.eq(t.hot_pinch, th))
        h.check("record_keeps_cold_pinch", h.eq(t.cold_pinch, tc))
        tp = t.serialize_json()["temp_pinch"]
        if abs(th - tc) < tol:
            h.check("summary_collapses_equal_pinches", set(k for k, v in tp.items() if v is not None) == {"cold_temp"})
            h.check("summary_keeps_value", h.eq(tp["cold_temp"], tc))
        else:
            h.check("summary_reports_both", tp.get("cold_temp") is not None and tp.get("hot_temp") is not None)
            if tp.get("cold_temp") is not None and tp.get("hot_temp") is not None:
                h.check("summary_keeps_value", And(h.eq(tp["cold_temp"], tc), h.eq(tp["hot_temp"], th)))
    else:
        h.check("absent_stays_absent", t.hot_pinch is None and t.cold_pinch is None)
        tp = t.serialize_json()["temp_pinch"]
        h.check("absent_stays_absent", tp.get("cold_temp") is None and tp.get("hot_temp") is None)


def _call_serialise(t, hot, cold, h):
    from types import SimpleNamespace
    fake = SimpleNamespace(name="Z/DI", degree_of_int=None, hot_utility_target=h.real("Qh"), cold_utility_target=h.real("Qc"),
                           heat_recovery_target=h.real("Qr"), utility_cost=0.0, hot_pinch=hot, cold_pinch=cold,
                           config=SimpleNamespace(DO_TURBINE_WORK=False, DO_AREA_TARGETING=False, DO_EXERGY_TARGETING=False),
                           hot_utilities=[], cold_utilities=[])
    return EnergyTarget.serialize_json(fake)


def obligations():
    fs = [ProblemTable.pinch_idx, ProblemTable.pinch_temperatures]
    obs = [
        Obligation("C06.idx.b", _ob_idx(5), kind="bounded", bound="residual columns of 2..5 rows, every cell symbolic", functions=fs,
                   expect=("hot_pinch_row_is_a_zero", "hot_pinch_rule", "cold_pinch_rule", "absent_only_if_no_zero"), max_paths=20000,
                   doc="zero rows, order, between-ness, threshold rule, absent only without a zero; temperatures are T[row]"),
        Obligation("C06.idx7.b", _ob_idx(7), kind="bounded", tier="thorough", bound="residual columns of 2..7 rows", functions=fs, max_paths=400000),
        unbounded.pinch_obligation("C06.idx.u"),
        Obligation("C06.idx.column.b", ob_other_column, kind="bounded", bound="2..4 rows; column named by enum member or text", functions=fs),
        Obligation("C06.record", ob_record, kind="proof", functions=[EnergyTarget.serialize_json], expect=("record_keeps_hot_pinch", "summary_keeps_value"),
                   doc="results dictionary -> EnergyTarget -> serialised summary keeps both pinch temperatures for every real value (path-complete)"),
        Obligation("C06.serialise", ob_serialise, kind="proof", functions=[EnergyTarget.serialize_json], expect=("collapsed_value", "both_reported_hot"),
                   doc="the record's pinch block carries the two temperatures; equal pinches collapse to one field (path-complete)"),
    ]
    from . import C01
    from .C09 import _deps
    return obs + _deps(C01, ("C01.di.readout",), "C06.dep.", "the pinch temperatures of a direct-integration record are read from the shifted cascade as computed (before display rounding)")
