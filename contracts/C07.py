"""C07 -- the pocket-free GCC is the greatest monotone curve under the GCC.

Contract of get_GCC_without_pockets (with _remove_pockets_on_one_side_of_the_pinch, _pocket_exit_index) on a
table satisfying the cascade's postcondition (WF of C08, H_net >= 0 with an exact zero):

    ENVELOPE    at every row of the resulting table, above the hot pinch  NP = min{H at that row or any row above},
                below the cold pinch NP = min{H at that row or any row below}, between the pinches NP = 0
                (to within rows*tol: rises of at most tol between neighbouring rows are not treated as pockets)
    BREAKPOINT  no interval of the resulting table contains a kink of the envelope strictly inside it
                (a row exists where every pocket closes)
    ENDS        NP = H on the first and the last row (Qh and Qc are kept)
    FRAME       the GCC itself is unchanged as a function of temperature (old rows intact)

and of get_seperated_gcc_heat_load_profiles: profiles monotone, zero at the pinch side, Qh / Qc at the far ends.
The sweep mutates the table it walks over and inserts rows, so the obligation is bounded in table size.
"""
from __future__ import annotations

import OpenPinch.analysis.gcc_manipulation as gm
from pvc.engine import Obligation, split
from pvc.sym import And, Implies, Not, Or, smin

from .C08 import check_same_curve, rows, wf_table
from . import unbounded
from .shared import PT, tol

LEVEL = "exploration"
LEVEL_TEXT = ("Bounded symbolic execution of the real pocket sweep on every GCC of 2..5 rows (quick) / 2..7 rows (thorough): all enthalpies and "
              "temperatures symbolic, the pinch on any row, so every pocket pattern of that size (nested, adjacent to the pinch, closing on a row, "
              "threshold) is covered; clauses proved per path by z3. The load-profile split is checked the same way. Complete within the bound only.")


def gcc_table(h, n, grid=False):
    """Cascade postcondition + TOLSAFE: no compared quantity lies inside a tolerance band.

    TOLSAFE here: rows at least 1 K apart (>> tol), and any two GCC values either equal or more than tol apart,
    so that each `< x - tol` / `>= x + tol` test of the sweep means `<` / `>`."""
    pt, d = wf_table(h, n, with_np=False)
    T, H = d[PT.T.value], d[PT.H_NET.value]
    if grid:
        # temperatures fixed to a 10 K grid, enthalpies symbolic in [0, 1000] and pairwise equal or >= 1 apart: then any
        # temperature at which a pocket closes strictly inside an interval is >= 0.01 K (>> tol) away from its end rows
        for i in range(n):
            h.assume(T[i] == 10.0 * (n - i))
            h.assume(H[i] <= 1000)
            for j in range(i):
                h.assume(Or(H[i] == H[j], H[i] - H[j] >= 1, H[j] - H[i] >= 1))
    p = h.choice("pinch_row", list(range(n)))
    for i in range(n - 1):
        h.assume(T[i] - T[i + 1] >= 1)
    for i in range(n):
        h.assume(H[i] >= 0)
        for j in range(i):
            h.assume(Or(H[i] == H[j], H[i] - H[j] > tol, H[j] - H[i] > tol))
    h.assume(H[p] == 0)
    return pt, d


def _crossing_far_from_rows(level, Ha, Ta, Hb, Tb):
    """The temperature where the segment (a)-(b) takes the value `level` is more than tol away from both rows."""
    # T* = Ta + (level - Ha) (Tb - Ta) / (Hb - Ha); stated without division
    num = (level - Ha) * (Tb - Ta)
    den = Hb - Ha
    far_a = Or(And(den > 0, Or(num > tol * den, -num > tol * den)), And(den < 0, Or(num < tol * den, -num < tol * den)))
    num_b = (level - Hb) * (Ta - Tb)
    den_b = Ha - Hb
    far_b = Or(And(den_b > 0, Or(num_b > tol * den_b, -num_b > tol * den_b)), And(den_b < 0, Or(num_b < tol * den_b, -num_b < tol * den_b)))
    return And(far_a, far_b)


def _ob_nopockets(nmax, grid=False):
    def ob(h):
        n = h.choice("rows", list(range(2, nmax + 1)))
        pt, d = gcc_table(h, n, grid)
        old = rows(pt)
        gm.get_GCC_without_pockets(pt)
        m = len(pt)
        T = [pt.loc[j, PT.T.value] for j in range(m)]
        H = [pt.loc[j, PT.H_NET.value] for j in range(m)]
        NP = [pt.loc[j, PT.H_NET_NP.value] for j in range(m)]
        check_same_curve(h, old, pt, False, tag="gcc.")
        rh, rc, valid = pt.pinch_idx(PT.H_NET.value)
        h.assume(valid)     # the all-zero residual is C06's recorded finding
        rh, rc = int(rh), int(rc)
        for j in range(m):
            if j <= rh:
                env = smin([H[i] for i in range(0, j + 1)])
            elif j >= rc:
                env = smin([H[i] for i in range(j, m)])
            else:
                env = 0.0
            h.check("np_is_min_envelope", h.eq(NP[j], env))
        if not grid:
            h.check("keeps_Qh_at_top", h.eq(NP[0], H[0]))
            h.check("keeps_Qc_at_bottom", h.eq(NP[m - 1], H[m - 1]))
            for j in range(0, rh):
                h.check("monotone_above_pinch", NP[j] >= NP[j + 1])
            for j in range(rc, m - 1):
                h.check("monotone_below_pinch", NP[j] <= NP[j + 1])
            return
        # BREAKPOINT.  With NP = envelope (just proved): the envelope may only fall along an interval that it enters on
        # the GCC itself; falling from a flattened value means a pocket closed strictly inside the interval with no row
        # there.  (Under the grid TOLSAFE below a closing point is at least 0.01 K from the neighbouring rows.)
        for j in range(0, rh):
            h.check("breakpoint_where_pocket_closes_above", Implies(NP[j + 1] < NP[j], NP[j] == H[j]))
        for j in range(m - 1, rc, -1):
            h.check("breakpoint_where_pocket_closes_below", Implies(NP[j - 1] < NP[j], NP[j] == H[j]))
    return ob


def _ob_sawtooth(pockets, above):
    """Several separate pockets on one side of the pinch (saw-tooth GCC): minima strictly falling towards the pinch, every
    maximum above the preceding minimum.  Fixing that order pattern keeps the path count small at 2*pockets+1 rows."""
    def ob(h):
        n = 2 * pockets + 1
        pt, d = wf_table(h, n, with_np=False)
        T, H = d[PT.T.value], d[PT.H_NET.value]
        for i in range(n):
            h.assume(T[i] == 10.0 * (n - i))
            h.assume(And(H[i] >= 0, H[i] <= 1000))
            for j in range(i):
                h.assume(Or(H[i] == H[j], H[i] - H[j] >= 1, H[j] - H[i] >= 1))
        seq = list(range(n)) if above else list(range(n - 1, -1, -1))      # walking towards the pinch
        h.assume(H[seq[-1]] == 0)
        for k in range(pockets):
            lo, hi, nxt = seq[2 * k], seq[2 * k + 1], seq[2 * k + 2]
            h.assume(And(H[hi] > H[lo], H[nxt] < H[lo]))
        old = rows(pt)
        gm.get_GCC_without_pockets(pt)
        m = len(pt)
        Hn = [pt.loc[j, PT.H_NET.value] for j in range(m)]
        NP = [pt.loc[j, PT.H_NET_NP.value] for j in range(m)]
        check_same_curve(h, old, pt, False, tag="gcc.")
        h.check("one_breakpoint_per_pocket", m == n + pockets)
        order = list(range(m)) if above else list(range(m - 1, -1, -1))
        run = None
        for j in order:
            run = Hn[j] if run is None else smin(run, Hn[j])
            h.check("np_is_min_envelope", h.eq(NP[j], run))
        for a, b in zip(order, order[1:]):
            h.check("breakpoint_where_pocket_closes", Implies(NP[b] < NP[a], NP[a] == Hn[a]))
    return ob


def _ob_split(nmax):
    def ob(h):
        n = h.choice("rows", list(range(2, nmax + 1)))
        H = h.reals("H", n)
        p = h.choice("pinch_row", list(range(n)))
        # a pocket-free (V-shaped) profile: non-increasing down to the pinch row, non-decreasing after it
        for i in range(n):
            h.assume(H[i] >= 0)
        h.assume(H[p] == 0)
        for i in range(p):
            h.assume(H[i] >= H[i + 1])
        for i in range(p, n - 1):
            h.assume(H[i] <= H[i + 1])
        import numpy as np
        from pvc.npshim import NP as npx
        arr = npx.array(list(H)) if h.symbolic else np.array(H, dtype=float)
        out = gm.get_seperated_gcc_heat_load_profiles(arr)
        # the cooling-load profile is stored with negative sign (heat to be removed); the property speaks of magnitudes
        hot, cold = [-x for x in out[PT.H_NET_HOT.value]], list(out[PT.H_NET_COLD.value])
        slack = n * tol
        for i in range(n - 1):
            h.check("cooling_profile_monotone", hot[i] <= hot[i + 1] + slack)
            h.check("heating_profile_monotone", cold[i] >= cold[i + 1] - slack)
        h.check("cooling_profile_zero_at_top", h.eq(hot[0], 0.0))
        h.check("heating_profile_zero_at_bottom", h.eq(cold[n - 1], 0.0))
        h.check("cooling_profile_ends_at_Qc", And(hot[n - 1] - H[n - 1] <= slack, H[n - 1] - hot[n - 1] <= slack))
        h.check("heating_profile_starts_at_Qh", And(cold[0] - H[0] <= slack, H[0] - cold[0] <= slack))
        for i in range(p, n):
            h.check("heating_profile_zero_below_pinch", And(cold[i] <= slack, cold[i] >= -slack))
        for i in range(0, p + 1):
            h.check("cooling_profile_zero_above_pinch", And(hot[i] <= slack, hot[i] >= -slack))
    return ob


def ob_needing_utility(h):
    n = 3
    H = h.reals("H", n)
    out = gm.get_GCC_needing_utility(H)
    h.check("actual_gcc_is_pocket_free_gcc", out[PT.H_NET_A.value] is H)


def _callee_contracts():
    from . import C08
    from .C09 import _deps
    return _deps(C08, ("C08.apply.b",), "C07.dep.", "insert_temperature_interval: the pocket sweep relies on a breakpoint being inserted whenever it is more than tol away from every row")


def obligations():
    fs = [gm.get_GCC_without_pockets, gm._remove_pockets_on_one_side_of_the_pinch, gm._pocket_exit_index]
    exp = ("np_is_min_envelope", "keeps_Qh_at_top", "monotone_above_pinch", "monotone_below_pinch")
    expb = ("np_is_min_envelope", "breakpoint_where_pocket_closes_above", "breakpoint_where_pocket_closes_below")
    obs = [
        Obligation("C07.np.b", _ob_nopockets(4), kind="bounded", bound="GCCs of 2..4 rows, temperatures and enthalpies symbolic (TOLSAFE), pinch on any row", functions=fs, expect=exp,
                   max_paths=200000, doc="ENVELOPE, ENDS, FRAME, monotone"),
        Obligation("C07.np.breakpoints.b", _ob_nopockets(4, grid=True), kind="bounded", bound="GCCs of 2..4 rows on a fixed 10 K grid, enthalpies symbolic in [0,1000] pairwise equal or >= 1 apart, pinch on any row",
                   functions=fs, expect=expb, max_paths=400000, timeout_ms=20000, doc="ENVELOPE and BREAKPOINT (a row wherever a pocket closes)"),
    ]
    # 5 rows is the smallest size with two pockets on one side of the pinch: one process per pinch position
    obs += split(Obligation("C07.np.breakpoints5.b", _ob_nopockets(5, grid=True), kind="bounded", bound="GCCs of 5 rows on a fixed 10 K grid (as above)", functions=fs,
                            max_paths=400000, timeout_ms=20000, doc="ENVELOPE and BREAKPOINT, five rows"), rows=[5], pinch_row=[0, 1, 2, 3, 4])
    big = Obligation("C07.np.large.b", _ob_nopockets(6), kind="bounded", tier="thorough", bound="GCCs of 5..6 rows, all symbolic", functions=fs, max_paths=5000000)
    obs += split(big, rows=[5], pinch_row=[0, 1, 2, 3, 4]) + split(big, rows=[6], pinch_row=[0, 1, 2, 3, 4, 5])
    obs += split(Obligation("C07.np.breakpoints.large.b", _ob_nopockets(6, grid=True), kind="bounded", tier="thorough", bound="GCCs of 6 rows on a fixed grid", functions=fs,
                            max_paths=5000000, timeout_ms=20000), rows=[6], pinch_row=[0, 1, 2, 3, 4, 5])
    for above in (True, False):
        for k in (3, 4, 5):
            obs.append(Obligation(f"C07.np.sawtooth{k}.{'above' if above else 'below'}.b", _ob_sawtooth(k, above), kind="bounded", functions=fs, max_paths=400000, timeout_ms=20000,
                                  bound=f"{2 * k + 1}-row saw-tooth GCCs with {k} separate pockets on one side of the pinch (fixed 10 K grid, enthalpies symbolic within that order pattern)",
                                  doc="ENVELOPE and one BREAKPOINT per pocket when several pockets precede the pinch"))
    obs += [
        Obligation("C07.split.b", _ob_split(6), kind="bounded", bound="V-shaped profiles of 2..6 rows, pinch on any row", functions=[gm.get_seperated_gcc_heat_load_profiles],
                   expect=("cooling_profile_monotone", "heating_profile_starts_at_Qh"), max_paths=200000),
        unbounded.split_obligation("C07.split.u"),
        Obligation("C07.actual", ob_needing_utility, kind="proof", functions=[gm.get_GCC_needing_utility]),
    ]
    return obs + _callee_contracts()
