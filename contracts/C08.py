"""C08 -- inserting temperature intervals never changes any curve.

Contract of ProblemTable.insert_temperature_interval (and, through it, of its 14 helpers):

    requires  WF(pt)            rows strictly descending by more than tol; row i >= 1: dT_i = T_{i-1} - T_i and
                                dH_x,i = CP_x,i * dT_i for the three (CP, dH) pairs; row 0: CP_x = 0, dH_x = 0 (no stream above the top row)
    ensures   WF(pt')           the same invariant afterwards (so it is an invariant of any call history)
              SAMECURVE         every old row is still present with every cell of every cumulative column unchanged; every
                                new row carries the linear interpolation between its old neighbours (end value outside)
              COUNT             returned value = rows(pt') - rows(pt); every requested T is within tol of a row of pt'
              IDEMPOTENT        a second identical request returns 0 and changes nothing

The sweep re-sorts a buffer and patches neighbours, so the obligations are bounded in table size and
request count (stated per obligation); within the bound every cell value and every requested temperature
is symbolic, i.e. every ordering, tie and tolerance case of that size is covered.
"""
from __future__ import annotations

from OpenPinch.classes.problem_table import HEAT_CAPACITY_PAIRS, INTERPOLATION_KEYS, ProblemTable
from pvc.engine import Obligation
from pvc.sym import And, Implies, Not, Or, ite

from .shared import PT, tol

LEVEL = "exploration"
LEVEL_TEXT = ("Bounded symbolic execution of the real insert_temperature_interval on tables of 2..4 rows with 1..3 requested temperatures "
              "(all values symbolic: every ordering, duplicate, within-tolerance and out-of-range case of that size), contract clauses proved "
              "per path by z3; a two-call history is checked directly. Complete within the stated bound only.")

CURVES = [PT.H_HOT.value, PT.H_COLD.value, PT.H_NET.value, PT.H_NET_NP.value]
PAIRS = list(HEAT_CAPACITY_PAIRS)
OTHER = [PT.RCP_HOT.value]


def wf_table(h, n, prefix="", with_np=True):
    """A table satisfying WF whose remaining degrees of freedom are all symbolic."""
    T = h.reals(f"{prefix}T", n)
    for i in range(n - 1):
        h.assume(T[i] - T[i + 1] > tol)
    # row 0 has no row above: its width cell is unconstrained by the property (the cascade writes 0, a top insertion writes the gap below)
    data = {PT.T.value: T, PT.DELTA_T.value: [h.real(f"{prefix}dT0")] + [T[i - 1] - T[i] for i in range(1, n)]}
    for cp, dh in PAIRS:
        cps = [0.0] + h.reals(f"{prefix}{cp}_", n)[1:]
        data[cp] = cps
        data[dh] = [cps[i] * data[PT.DELTA_T.value][i] for i in range(n)]
    for c in CURVES:
        if c == PT.H_NET_NP.value and not with_np:
            continue
        data[c] = h.reals(f"{prefix}{c}_", n)
    data[PT.RCP_HOT.value] = h.reals(f"{prefix}rcp_", n)
    return ProblemTable({k: list(v) for k, v in data.items()}), data


def rows(pt):
    return [{c: pt.loc[i, c] for c in [PT.T.value, PT.DELTA_T.value] + [x for p in PAIRS for x in p] + CURVES} for i in range(len(pt))]


def check_wf(h, pt, tag=""):
    n = len(pt)
    T = [pt.loc[i, PT.T.value] for i in range(n)]
    for i in range(n - 1):
        h.check(tag + "rows_strictly_descending_beyond_tol", T[i] - T[i + 1] > tol)
    for i in range(1, n):
        h.check(tag + "width_is_gap_to_row_above", h.eq(pt.loc[i, PT.DELTA_T.value], T[i - 1] - T[i]))
    for i in range(n):
        for cp, dh in PAIRS:
            h.check(tag + "dH_is_CP_times_width", h.eq(pt.loc[i, dh], pt.loc[i, cp] * pt.loc[i, PT.DELTA_T.value]))


def check_same_curve(h, old, pt, with_np, tag=""):
    """old = list of old rows (dicts); every old row survives, new rows interpolate."""
    n_old, n = len(old), len(pt)
    T = [pt.loc[j, PT.T.value] for j in range(n)]
    curves = [c for c in CURVES if with_np or c != PT.H_NET_NP.value]
    # locate old rows (rows are strictly ordered, so position = number of new rows above)
    pos = []
    j = 0
    for i in range(n_old):
        while j < n and not bool(h.eq(T[j], old[i][PT.T.value])) :
            j += 1
        h.check(tag + "old_row_still_present", j < n)
        if j >= n:
            return
        pos.append(j)
        j += 1
    for i, j in enumerate(pos):
        for c in curves:
            h.check(tag + "old_row_curve_value_unchanged", h.eq(pt.loc[j, c], old[i][c]))
        for cp, _ in PAIRS:
            h.check(tag + "old_row_heat_capacity_unchanged", h.eq(pt.loc[j, cp], old[i][cp]))
    for j in range(n):
        if j in pos:
            continue
        above = [i for i, p in enumerate(pos) if p < j]
        below = [i for i, p in enumerate(pos) if p > j]
        for c in curves:
            v = pt.loc[j, c]
            if not above:
                h.check(tag + "above_top_takes_end_value", h.eq(v, old[0][c]))
            elif not below:
                h.check(tag + "below_bottom_takes_end_value", h.eq(v, old[-1][c]))
            else:
                a, b = old[above[-1]], old[below[0]]
                lam = (T[j] - b[PT.T.value]) / (a[PT.T.value] - b[PT.T.value])
                h.check(tag + "new_row_is_linear_interpolation", h.eq(v, b[c] + lam * (a[c] - b[c])))
        # interval heat capacities of a new interior row are those of the interval it splits (the lower old row's)
        if above and below:
            for cp, _ in PAIRS:
                h.check(tag + "new_row_inherits_interval_heat_capacity", h.eq(pt.loc[j, cp], old[below[0]][cp]))
        else:
            for cp, _ in PAIRS:
                h.check(tag + "outside_rows_have_zero_heat_capacity", h.eq(pt.loc[j, cp], 0.0))


def _ob_insert(nmax, kmax, kmin=1):
    def ob(h):
        n = h.choice("rows", list(range(2, nmax + 1)))
        k = h.choice("requests", list(range(kmin, kmax + 1)))
        with_np = h.choice("np_column_populated", [True, False])
        pt, _ = wf_table(h, n, with_np=with_np)
        old = rows(pt)
        req = h.reals("req", k)
        ret = pt.insert_temperature_interval(req if k > 1 else h.choice("scalar_or_list", [req, req[0]]))
        h.check("returned_count_is_rows_added", ret == len(pt) - n)
        check_wf(h, pt)
        check_same_curve(h, old, pt, with_np)
        Tn = [pt.loc[j, PT.T.value] for j in range(len(pt))]
        for r in req:
            h.check("every_request_within_tol_of_a_row", Or(*[abs(r - t) <= tol for t in Tn]))
        # re-inserting adds nothing
        before = [[pt.data[i, j] for j in range(pt.data.shape[1])] for i in range(len(pt))]
        ret2 = pt.insert_temperature_interval(list(req))
        h.check("reinsert_returns_zero", ret2 == 0)
        h.check("reinsert_keeps_row_count", len(pt) == len(before))
    return ob


def ob_two_calls(h):
    """A history of two calls: the invariant established by the first is what the second relies on."""
    pt, _ = wf_table(h, 2, with_np=False)
    old = rows(pt)
    a, b = h.real("first"), h.real("second")
    r1 = pt.insert_temperature_interval(a)
    r2 = pt.insert_temperature_interval([b])
    h.check("returned_counts_add_up", r1 + r2 == len(pt) - 2)
    check_wf(h, pt)
    check_same_curve(h, old, pt, False)


def obligations():
    P = ProblemTable
    # the private helpers are listed for the evidence (hashes of what ran under the contract); a refactor that renames or removes one must
    # not stop the check from deciding, so names that no longer exist are skipped (the contract is on insert_temperature_interval)
    fs = [getattr(P, n) for n in ("insert_temperature_interval", "_Ts_needing_insertion", "_categorise_insertion_targets", "_dedupe_monotonic",
          "_group_middle_inserts", "_apply_interval_map", "_build_mid_block", "_rebuild_edge_block", "_insert_mid_block", "_append_placeholders",
          "_populate_from_neighbor", "_build_top_or_bottom_block", "_initialise_insert_rows", "_interpolate_heat_columns", "_adjust_bottom_row",
          "_update_heat_capacity_pairs") if hasattr(P, n)]
    exp = ("width_is_gap_to_row_above", "dH_is_CP_times_width", "new_row_is_linear_interpolation", "old_row_curve_value_unchanged",
           "above_top_takes_end_value", "below_bottom_takes_end_value", "reinsert_returns_zero")
    return [
        Obligation("C08.apply.b", _ob_insert(3, 2), kind="bounded", bound="tables of 2..3 rows x 1..2 requested temperatures (list or scalar), NaN or populated optional curve",
                   functions=fs, expect=exp, max_paths=40000, doc="WF, SAMECURVE, COUNT, IDEMPOTENT for one call"),
        Obligation("C08.apply3.b", _ob_insert(2, 3, kmin=3), kind="bounded", bound="2-row tables x 3 requested temperatures in any order (duplicates, ties, out of range)",
                   functions=fs, max_paths=100000, doc="WF, SAMECURVE, COUNT, IDEMPOTENT for three requests in one call"),
        Obligation("C08.history.b", ob_two_calls, kind="bounded", bound="2-row table, two successive single insertions", functions=fs, max_paths=20000,
                   doc="the invariant carries over a two-call history"),
        Obligation("C08.apply.large.b", _ob_insert(4, 3), kind="bounded", tier="thorough", bound="tables of 2..4 rows x 1..3 requested temperatures", functions=fs,
                   expect=exp, max_paths=3000000),
    ]
