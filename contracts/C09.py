"""C09 -- total-site targets are additive over zones and bracketed by bounds.

  ADDITIVE   the total-process record is the value-by-value / utility-by-utility sum of the zones' DI records   (= C02.tz.sum.b)
  UPPER      Qh_TS <= sum Qh_zone and Qc_TS <= sum Qc_zone: the site utility cascade never reports more than the utility duties
             put into it (= C02.ts.cascade.b clauses TS_Q*_not_above_summed_*), the duties being the zone sums (ADDITIVE + C03 CLOSURE)
  RECOVERY   Qr_TS = sum Qr_zone + (sum Qh_zone - Qh_TS)                                                        (= C02.ts.readout)
  ORDER      the recursion targets every sub-zone before the parent's indirect step and gives every site / process
             zone exactly one direct-integration record
  LOWER      Qh_TS >= Qh of the site's own direct integration: NOT COVERED (a theorem about two different cascades; no
             per-function contract within reach carries it -- see DESIGN.md section 5)
"""
from __future__ import annotations

import OpenPinch.main as main
from OpenPinch.classes.zone import Zone
from OpenPinch.lib.config import Configuration
from OpenPinch.lib.enums import ZoneType
from pvc.engine import Obligation

from . import C02

LEVEL = "exploration"
LEVEL_TEXT = ("ADDITIVE is proved for ANY number of sub-zones (C09.additive.u: the summation loop of the real function cut with an inductive invariant, pvc/loopcut.py; utilities per side 0..2). "
              "ADDITIVE (bounded sibling with inputs), UPPER and RECOVERY are the bounded symbolic obligations of C02 on the real summation / site-cascade / read-out functions; "
              "ORDER is an exhaustive enumeration of zone trees up to depth 3 through the real recursion with the two targeting entry points "
              "replaced by recorders. The lower bound (TS >= site DI) is not covered by this technique.")
NOT_COVERED = ["total-site targets never smaller than the site's own direct-integration targets for ALL sites (global optimality across two cascades): only the small native scope of C09.ordering.b"]

S, P, O = ZoneType.S.value, ZoneType.P.value, ZoneType.O.value


def _shapes():
    """Zone trees: site -> 0..2 children (process / nested site) -> 0..2 grandchildren (process / operation) -> 0..1 operation."""
    leaf_sets = [[], [O], [O, O], [P], [P, O]]
    shapes = []
    for kids in ([], [P], [P, P], [S], [P, S]):
        for gk in leaf_sets:
            shapes.append((kids, gk))
    return shapes


def ob_order(h):
    kids, gkids = h.choice("tree", _shapes())
    do_op = h.choice("DO_DIRECT_OPERATION_TARGETING", [False, True])
    do_ind = h.choice("DO_INDIRECT_PROCESS_TARGETING", [False, True])
    cfg = Configuration()
    cfg.DO_DIRECT_OPERATION_TARGETING = do_op
    cfg.DO_INDIRECT_PROCESS_TARGETING = do_ind
    root = Zone("Site", S, cfg)
    allz = [root]
    for i, kt in enumerate(kids):
        k = Zone(f"K{i}", kt, cfg, parent_zone=root)
        root.add_zone(k)
        allz.append(k)
        for j, gt in enumerate(gkids):
            g = Zone(f"K{i}G{j}", gt, cfg, parent_zone=k)
            if kt == S and gt == O:
                pass
            k.add_zone(g)
            allz.append(g)
            if gt == P:
                o = Zone(f"K{i}G{j}O", O, cfg, parent_zone=g)
                g.add_zone(o)
                allz.append(o)
    log = []
    orig_d, orig_i = main.compute_direct_integration_targets, main.compute_indirect_integration_targets
    main.compute_direct_integration_targets = lambda z: (log.append(("DI", z.name)), z)[1]
    main.compute_indirect_integration_targets = lambda z: (log.append(("TS", z.name)), z)[1]
    try:
        main.get_targets(root)
    finally:
        main.compute_direct_integration_targets, main.compute_indirect_integration_targets = orig_d, orig_i
    di = [n for k, n in log if k == "DI"]
    for z in allz:
        want = 1 if (z.identifier in (S, P) or do_op) else 0
        # operation zones nested under an operation-free parent are only reached through their parents
        h.check("one_direct_record_per_site_or_process_zone", di.count(z.name) == want if z.identifier in (S, P) else di.count(z.name) <= 1)
    for idx, (k, n) in enumerate(log):
        if k != "TS":
            continue
        z = next(x for x in allz if x.name == n)
        for sub in z.subzones.values():
            if sub.identifier in (S, P):
                h.check("subzone_targeted_before_parent_indirect_step", ("DI", sub.name) in log[:idx])
            for sub2 in sub.subzones.values():
                if sub2.identifier in (S, P):
                    h.check("nested_subzone_targeted_before_parent_indirect_step", ("DI", sub2.name) in log[:idx])
    h.check("site_with_subzones_gets_total_site_step", (("TS", "Site") in log) == (len(root.subzones) > 0))
    h.check("site_gets_its_own_direct_integration", ("DI", "Site") in log)


def ob_utilities_separate(h):
    """SEPARATE: every zone of the tree gets its OWN copy of the utility ladder -- same levels, in the same order, and no utility object shared
    between two zones or with the list handed in.  The targeting of one zone writes duties into its utility objects; the sums of C09 / C02 are
    sums of records only if no two records alias a utility.  (Ownership / frame contract of _set_utilities_for_zone_and_subzones.)"""
    import OpenPinch.analysis.data_preparation as dp
    from OpenPinch.classes.stream import Stream
    from pvc.engine import native
    kids, gkids = h.choice("tree", _shapes())
    nh = h.choice("hot_utilities", [1, 2])
    with native():
        cfg = Configuration()
        root = Zone("Site", S, cfg)
        allz = [root]
        for i, kt in enumerate(kids):
            k = Zone(f"K{i}", kt, cfg, parent_zone=root)
            root.add_zone(k)
            allz.append(k)
            for j, gt in enumerate(gkids):
                g = Zone(f"K{i}G{j}", gt, cfg, parent_zone=k)
                k.add_zone(g)
                allz.append(g)
                if gt == P:
                    o = Zone(f"K{i}G{j}O", O, cfg, parent_zone=g)
                    g.add_zone(o)
                    allz.append(o)
        hot = [Stream(f"HU{j}", 300.0 - 50 * j, 299.0 - 50 * j, heat_flow=0.0, is_process_stream=False) for j in range(nh)]
        cold = [Stream("CU", 10.0, 15.0, heat_flow=0.0, is_process_stream=False)]
        dp._set_utilities_for_zone_and_subzones(root, hot, cold)
        seen = {id(u): "the list handed in" for u in hot + cold}
        for z in allz:
            hu, cu = list(z.hot_utilities), list(z.cold_utilities)
            h.check("every_zone_gets_the_whole_ladder", [u.t_supply for u in hu] == [u.t_supply for u in hot] and [u.t_supply for u in cu] == [10.0])
            for u in hu + cu:
                h.check("no_utility_object_shared_between_zones", id(u) not in seen, note=f"{z.name}.{u.name} is also held by {seen.get(id(u))}")
                seen[id(u)] = z.name
        # writing a duty into one zone's utility leaves every other zone's utilities alone
        list(allz[-1].hot_utilities)[0].set_heat_flow(123.0)
        h.check("a_duty_written_in_one_zone_is_not_seen_in_another", all(list(z.hot_utilities)[0].heat_flow == 0.0 for z in allz[:-1]) and hot[0].heat_flow == 0.0)


SITES = {
    "recovery_possible": [("A", "H1", 250.0, 120.0, 1300.0), ("A", "C1", 40.0, 100.0, 300.0), ("B", "C2", 60.0, 180.0, 1200.0), ("B", "H2", 90.0, 50.0, 200.0)],
    "none_possible": [("A", "H1", 200.0, 100.0, 1000.0), ("B", "C1", 50.0, 150.0, 800.0)],
    "three_zones": [("A", "H1", 300.0, 150.0, 1500.0), ("B", "C1", 100.0, 200.0, 1000.0), ("C", "H2", 120.0, 40.0, 800.0), ("C", "C2", 20.0, 90.0, 700.0)],
    "nested_labels": [("A/X", "H1", 300.0, 150.0, 1500.0), ("A/Y", "C1", 100.0, 200.0, 1000.0), ("B", "H2", 120.0, 40.0, 800.0), ("B", "C2", 20.0, 90.0, 700.0)],
    "one_zone": [("A", "H1", 250.0, 120.0, 1300.0), ("A", "C1", 40.0, 200.0, 1600.0)],
}
LADDERS = {
    "none": [],
    "one_level_per_side": [("HP", "Hot", 320.0, 319.0), ("CW", "Cold", 10.0, 15.0)],
    "intermediate_levels": [("HP", "Hot", 320.0, 319.0), ("MP", "Both", 190.0, 189.0), ("LP", "Both", 130.0, 129.0), ("CW", "Cold", 10.0, 15.0)],
    "one_intermediate_level": [("HP", "Hot", 320.0, 319.0), ("LP", "Both", 110.0, 109.0), ("CW", "Cold", 10.0, 15.0)],
}


def ob_ordering(h):
    """ORDER on the records the real service returns: site direct integration <= total site <= sum of zones, for Qh and Qc; total-site
    recovery = summed zonal recovery + hot utility saved.  Native, on a small pool of sites x utility ladders."""
    from pvc.engine import native
    site = h.choice("site", list(SITES))
    ladder = h.choice("utility_ladder", list(LADDERS))
    opts = h.choice("options", [{}, {"DO_DIRECT_OPERATION_TARGETING": True}])
    with native():
        prob = {"streams": [dict(zone=z, name=n, t_supply=a, t_target=b, heat_flow=q, dt_cont=5.0, htc=1.0) for z, n, a, b, q in SITES[site]],
                "utilities": [dict(name=n, type=t, t_supply=a, t_target=b, dt_cont=5.0, price=10.0, htc=1.0, heat_flow=None) for n, t, a, b in LADDERS[ladder]],
                "options": dict(opts)}
        out = main.pinch_analysis_service(prob, project_name="Site")
        rec = {}
        for t in out.targets:
            rec.setdefault(t.name, t)
        di, tp, ts = rec["Site/Direct Integration"], rec["Site/Total Process Target"], rec["Site/Total Site Target"]
        eps = 1e-6 * max(1.0, sum(q for *_, q in SITES[site]))
        # the records of the top-level zones, picked by the zone labels of the request (unit-operation records carry leaf names such as "O1" that
        # repeat from zone to zone, so the first record of each name is the top-level one: the service lists a zone before its operations)
        top = []
        for z in dict.fromkeys(zl.split("/")[0] for zl, *_ in SITES[site]):
            top.append(next(t for t in out.targets if t.name == f"{z}/Direct Integration"))
        zones = top
        if site != "nested_labels":      # (records of nested zones carry the leaf name only: the partition into top-level zones is C09.additive / C09.order)
            h.check("total_process_is_sum_of_top_level_zones", abs(tp.Qh - sum(z.Qh for z in zones)) <= eps and abs(tp.Qc - sum(z.Qc for z in zones)) <= eps)
        h.check("total_site_not_above_the_sum_of_zones", ts.Qh <= tp.Qh + eps and ts.Qc <= tp.Qc + eps)
        h.check("total_site_not_below_site_direct_integration", ts.Qh >= di.Qh - eps and ts.Qc >= di.Qc - eps)
        h.check("total_site_recovery_is_zonal_recovery_plus_hot_utility_saved", abs(ts.Qr - (tp.Qr + (tp.Qh - ts.Qh))) <= eps)


def _deps(module, names, prefix, why):
    """callee contracts this property's clauses are stated against, discharged here as well (same harness objects, other names)"""
    out = []
    for o in module.obligations():
        base = o.name.split("[")[0]
        if base in names and o.tier == "quick":
            out.append(Obligation(o.name.replace(base.split(".")[0] + ".", prefix, 1), o.fn, kind=o.kind, functions=o.functions, bound=o.bound, max_paths=o.max_paths, params=o.params,
                                  timeout_ms=o.timeout_ms, expect=o.expect, stubs=o.stubs, runner=o.runner, time_budget_s=o.time_budget_s,
                                  doc=f"(callee contract, shared with {base.split('.')[0]}: {why}) " + (o.doc or "")))
    return out


def obligations():
    obs = []
    for o in C02.obligations():
        if o.name in ("C02.tz.sum.b", "C02.tz.sum.u", "C02.ts.cascade.b", "C02.ts.readout"):
            nm = {"C02.tz.sum.b": "C09.additive.b", "C02.tz.sum.u": "C09.additive.u", "C02.ts.cascade.b": "C09.upper.b", "C02.ts.readout": "C09.recovery"}[o.name]
            obs.append(Obligation(nm, o.fn, kind=o.kind, functions=o.functions, bound=o.bound, max_paths=o.max_paths, stubs=o.stubs, doc=o.doc,
                                  expect=o.expect if nm.endswith(".u") else ()))
    obs.append(Obligation("C09.order.b", ob_order, kind="bounded", bound="every zone tree of the listed shapes up to depth 3 x both operation/process option flags (exhaustive)",
                          functions=[main.get_targets, main._get_site_targets, main._get_process_targets, main._get_unit_operation_targets], max_paths=100000))
    obs.append(Obligation("C09.ordering.b", ob_ordering, kind="smallscope", functions=[main.pinch_analysis_service], max_paths=10000,
                          bound=f"{len(SITES)} sites (1..3 zones, nested labels) x {len(LADDERS)} utility ladders x unit-operation targeting off / on, real service run natively (exhaustive)",
                          doc="ORDER: DI(site) <= TS <= sum of zones on the returned records (the lower bound has no contract in reach: small native scope only)"))
    import OpenPinch.analysis.data_preparation as dp
    obs.append(Obligation("C09.utilities_separate.b", ob_utilities_separate, kind="bounded", functions=[dp._set_utilities_for_zone_and_subzones], max_paths=10000,
                          bound="every zone tree of the listed shapes up to depth 3 x 1..2 hot utility levels (exhaustive, native)",
                          doc="SEPARATE: no utility object is shared between two zones' records (ownership contract the additive sums rely on)"))
    from . import C03
    obs += _deps(C03, ("C03.utilities_list.b",), "C09.dep.", "utility streams start from zero duty, so zone sums contain assigned duties only")
    return obs
