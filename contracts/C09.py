"""C09 -- total-site targets are additive over zones and bracketed by bounds.

  ADDITIVE   the total-process record is the value-by-value / utility-by-utility sum of the zones' DI records   (= C02.tz.sum.b)
  UPPER      Qh_TS <= sum Qh_zone and Qc_TS <= sum Qc_zone: the site utility cascade never reports more than the utility duties
             put into it (= C02.ts.cascade.b clauses TS_Q*_not_above_summed_*), the duties being the zone sums (ADDITIVE + C03 CLOSURE)
  RECOVERY   Qr_TS = sum Qr_zone + (sum Qh_zone - Qh_TS)                                                        (= C02.ts.readout)
  ORDER      the recursion targets every sub-zone before the parent's indirect step and gives every site / process
             zone exactly one direct-integration record
  LOWER      Qh_TS >= Qh of the site's own direct integration: NOT COVERED (a theorem about two different cascades; no
             per-function contract within reach carries it -- see DESIGN.md section 5)
"""
from __future__ import annotations

import OpenPinch.main as main
from OpenPinch.classes.zone import Zone
from OpenPinch.lib.config import Configuration
from OpenPinch.lib.enums import ZoneType
from pvc.engine import Obligation

from . import C02

LEVEL = "exploration"
LEVEL_TEXT = ("ADDITIVE, UPPER and RECOVERY are the bounded symbolic obligations of C02 on the real summation / site-cascade / read-out functions; "
              "ORDER is an exhaustive enumeration of zone trees up to depth 3 through the real recursion with the two targeting entry points "
              "replaced by recorders. The lower bound (TS >= site DI) is not covered by this technique.")
NOT_COVERED = ["total-site targets never smaller than the site's own direct-integration targets (global optimality across two cascades)"]

S, P, O = ZoneType.S.value, ZoneType.P.value, ZoneType.O.value


def _shapes():
    """Zone trees: site -> 0..2 children (process / nested site) -> 0..2 grandchildren (process / operation) -> 0..1 operation."""
    leaf_sets = [[], [O], [O, O], [P], [P, O]]
    shapes = []
    for kids in ([], [P], [P, P], [S], [P, S]):
        for gk in leaf_sets:
            shapes.append((kids, gk))
    return shapes


def ob_order(h):
    kids, gkids = h.choice("tree", _shapes())
    do_op = h.choice("DO_DIRECT_OPERATION_TARGETING", [False, True])
    do_ind = h.choice("DO_INDIRECT_PROCESS_TARGETING", [False, True])
    cfg = Configuration()
    cfg.DO_DIRECT_OPERATION_TARGETING = do_op
    cfg.DO_INDIRECT_PROCESS_TARGETING = do_ind
    root = Zone("Site", S, cfg)
    allz = [root]
    for i, kt in enumerate(kids):
        k = Zone(f"K{i}", kt, cfg, parent_zone=root)
        root.add_zone(k)
        allz.append(k)
        for j, gt in enumerate(gkids):
            g = Zone(f"K{i}G{j}", gt, cfg, parent_zone=k)
            if kt == S and gt == O:
                pass
            k.add_zone(g)
            allz.append(g)
            if gt == P:
                o = Zone(f"K{i}G{j}O", O, cfg, parent_zone=g)
                g.add_zone(o)
                allz.append(o)
    log = []
    orig_d, orig_i = main.compute_direct_integration_targets, main.compute_indirect_integration_targets
    main.compute_direct_integration_targets = lambda z: (log.append(("DI", z.name)), z)[1]
    main.compute_indirect_integration_targets = lambda z: (log.append(("TS", z.name)), z)[1]
    try:
        main.get_targets(root)
    finally:
        main.compute_direct_integration_targets, main.compute_indirect_integration_targets = orig_d, orig_i
    di = [n for k, n in log if k == "DI"]
    for z in allz:
        want = 1 if (z.identifier in (S, P) or do_op) else 0
        # operation zones nested under an operation-free parent are only reached through their parents
        h.check("one_direct_record_per_site_or_process_zone", di.count(z.name) == want if z.identifier in (S, P) else di.count(z.name) <= 1)
    for idx, (k, n) in enumerate(log):
        if k != "TS":
            continue
        z = next(x for x in allz if x.name == n)
        for sub in z.subzones.values():
            if sub.identifier in (S, P):
                h.check("subzone_targeted_before_parent_indirect_step", ("DI", sub.name) in log[:idx])
            for sub2 in sub.subzones.values():
                if sub2.identifier in (S, P):
                    h.check("nested_subzone_targeted_before_parent_indirect_step", ("DI", sub2.name) in log[:idx])
    h.check("site_with_subzones_gets_total_site_step", (("TS", "Site") in log) == (len(root.subzones) > 0))
    h.check("site_gets_its_own_direct_integration", ("DI", "Site") in log)


def obligations():
    obs = []
    for o in C02.obligations():
        if o.name in ("C02.tz.sum.b", "C02.ts.cascade.b", "C02.ts.readout"):
            nm = {"C02.tz.sum.b": "C09.additive.b", "C02.ts.cascade.b": "C09.upper.b", "C02.ts.readout": "C09.recovery"}[o.name]
            obs.append(Obligation(nm, o.fn, kind=o.kind, functions=o.functions, bound=o.bound, max_paths=o.max_paths, stubs=o.stubs, doc=o.doc))
    obs.append(Obligation("C09.order.b", ob_order, kind="bounded", bound="every zone tree of the listed shapes up to depth 3 x both operation/process option flags (exhaustive)",
                          functions=[main.get_targets, main._get_site_targets, main._get_process_targets, main._get_unit_operation_targets], max_paths=100000))
    return obs
