"""C10 -- zone-tree construction conserves the streams.

Contract of prepare_problem (with _validate_zone_tree_structure, _rewrite_stream_zones_from_tree, _get_process_streams_in_each_subzone,
Zone.import_hot_and_cold_streams_from_sub_zones, StreamCollection.add, _set_utilities_for_zone_and_subzones):

  CONSERVED   every input stream with a non-empty label is held by exactly one LEAF zone, exactly once by each ancestor of that
              leaf and by no other zone; hence for every zone count and hot/cold duty equal those of the streams labelled into it
  OWN-UTILS   every zone holds utility objects that no other zone holds

Zone labels are strings built with split/strip/join, dictionaries of lists and id()-based de-duplication: outside what the VC
generator models symbolically.  The deciding step is therefore the `smallscope` back end: the REAL function (real pydantic
models) is run on every problem of a small scope and the contract is evaluated on the result -- bounded, labelled so.
"""
from __future__ import annotations

import itertools

import OpenPinch.analysis.data_preparation as dp
from OpenPinch.classes.zone import Zone
from OpenPinch.lib.schema import StreamSchema, UtilitySchema, ZoneTreeSchema
from pvc.engine import Obligation, native, split

LEVEL = "exploration"
LEVEL_TEXT = ("Exhaustive small-scope enumeration through the real prepare_problem: every pair (quick) / triple (thorough) of streams over a label alphabet "
              "that contains flat names, nested paths, labels that are suffixes or prefixes of others, padded components and generated unit-operation "
              "names, with duplicate stream names, with no zone tree and with user trees; CONSERVED and OWN-UTILS evaluated on every result.")
TECHNIQUE = "contracts on prepare_problem evaluated over an exhaustively enumerated small scope of label sets (real code, real pydantic models); no symbolic strings"
LABELS = ["A", "B", "A/B", "B/A", "A/A", " A ", "A/ B", "O1", "A/O1", "Site", "Site/A", "A/B/A"]
TREES = [None, "flat", "nested"]
# zone names that end alike AS STRINGS but are different path components
SIMILAR_LABELS = ["A", "XA", "P/A", "P/XA", " XA", "B"]
# labels that address, or look like, generated unit-operation zones (raw labels with a leading blank sort before the others)
GENERATED_LABELS = ["A", " A/O1", " A/O2", "A/O1", "A/O2", "B"]


def _tree(kind):
    if kind is None:
        return None
    if kind == "similar_names":
        return ZoneTreeSchema(name="Site", type="Site", children=[
            ZoneTreeSchema(name="P", type="Process Zone", children=[ZoneTreeSchema(name="A", type="Process Zone"), ZoneTreeSchema(name="XA", type="Process Zone")]),
            ZoneTreeSchema(name="B", type="Process Zone")])
    if kind == "flat":
        return ZoneTreeSchema(name="Site", type="Site", children=[ZoneTreeSchema(name="A", type="Process Zone"), ZoneTreeSchema(name="B", type="Process Zone")])
    return ZoneTreeSchema(name="Site", type="Site", children=[
        ZoneTreeSchema(name="A", type="Process Zone", children=[ZoneTreeSchema(name="B", type="Process Zone")]),
        ZoneTreeSchema(name="B", type="Process Zone")])


def _walk(z, path=()):
    yield z, path
    for s in z.subzones.values():
        yield from _walk(s, path + (z,))


def _streams_of(z):
    return list(z.hot_streams._streams.values()) + list(z.cold_streams._streams.values())


def _generated_zone_reused(labels, names):
    """Mirror of the order in which the no-tree synthesis visits the streams (sorted by raw label, then name) and of the names it
    generates for their unit-operation zones: True when a later label addresses, or passes through, a zone that was GENERATED for an
    earlier stream (that zone then has a stream of its own and sub-zones: the recorded finding)."""
    order = sorted(range(len(labels)), key=lambda i: (labels[i], names[i]))
    children, generated, counters = {(): set()}, set(), {}
    for i in order:
        path = ()
        for c in _norm(labels[i]):
            if path + (c,) in generated:
                return True
            children.setdefault(path, set()).add(c)
            path += (c,)
            children.setdefault(path, set())
        k = counters.get(path, 0) + 1
        while f"O{k}" in children[path]:
            k += 1
        counters[path] = k
        children[path].add(f"O{k}")
        generated.add(path + (f"O{k}",))
        children[path + (f"O{k}",)] = set()
    return False


def _ob(n_streams, LABELS=None, TREES=None):
    LABELS = LABELS or globals()["LABELS"]
    TREES = TREES or globals()["TREES"]

    def ob(h):
        tree_kind = h.choice("zone_tree", TREES)
        labels = [h.choice(f"label{i}", LABELS) for i in range(n_streams)]
        same_name = h.choice("duplicate_stream_names", [False, True])
        kinds = [h.choice(f"kind{i}", ["hot", "cold"]) for i in range(n_streams)]
        streams = []
        for i in range(n_streams):
            hot = kinds[i] == "hot"
            streams.append(StreamSchema(zone=labels[i], name="s" if same_name else f"s{i}", t_supply=(200.0 if hot else 50.0) + i, t_target=(100.0 if hot else 150.0) + i,
                                        heat_flow=100.0 + 7 * i, dt_cont=5.0, htc=1.0))
        with native():
            site = dp.prepare_problem(streams=streams, utilities=[], options=None, project_name="Site", zone_tree=_tree(tree_kind))
        zones = list(_walk(site))
        # recorded finding: a label that equals the tail of another stream's (rewritten) path makes the relative-path matcher
        # put that other stream into both zones
        ident = lambda s: (round(float(s.heat_flow) - 100.0) // 7)          # which input stream an object stands for (duties are unique)
        holders = {i: [] for i in range(n_streams)}
        for z, path in zones:
            for s in _streams_of(z):
                holders[ident(s)].append((z, path))
        norms = [_norm(l) for l in labels]
        suffix_clash = any(_is_tail(a, b) for a, b in itertools.permutations(norms, 2))
        # ... and, with a user tree, a zone path whose tail is the relative path of another zone (Site/A/B vs Site/B) clashes the same way
        tree_clash = tree_kind == "nested" and any(_resolved(c, tree_kind) == ("Site", "A", "B") for c in norms)
        h.exclude_known("KF-C10-suffix-labels", suffix_clash or tree_clash)
        # recorded finding: a stream attached to a zone that ALSO has sub-zones is discarded when that zone re-imports its sub-zones'
        # streams; without a user tree this happens when a label names a generated unit-operation zone ('A' and 'A/O1')
        names = ["s" if same_name else f"s{i}" for i in range(n_streams)]
        h.exclude_known("KF-C10-user-tree-unresolved", tree_kind is None and _generated_zone_reused(labels, names))
        # recorded finding: with a user tree, a label that does not resolve to a LEAF of that tree (unknown zone, or a zone that
        # has sub-zones) loses its stream
        h.exclude_known("KF-C10-user-tree-unresolved", tree_kind is not None and not all(_resolves_to_leaf(_norm(l), tree_kind) for l in labels))
        for i in range(n_streams):
            hz = holders[i]
            leaves = [(z, p) for z, p in hz if not z.subzones]
            h.check("stream_held_by_exactly_one_leaf", len(leaves) == 1)
            if len(leaves) != 1:
                continue
            leaf, path = leaves[0]
            want = [leaf] + list(path)
            h.check("stream_held_once_by_each_ancestor_and_nowhere_else", sorted(map(id, [z for z, _ in hz])) == sorted(map(id, want)))
        for z, _ in zones:
            mine = _streams_of(z)
            sub = [i for i in range(n_streams) if any(zz is z for zz, _ in holders[i])]
            h.check("zone_duty_equals_duty_of_streams_labelled_into_it", abs(sum(float(s.heat_flow) for s in mine) - sum(100.0 + 7 * i for i in sub)) < 1e-9)
            h.check("zone_count_equals_number_of_streams_labelled_into_it", len(mine) == len(sub))
        seen = {}
        for z, _ in zones:
            for u in list(z.hot_utilities._streams.values()) + list(z.cold_utilities._streams.values()):
                h.check("every_zone_has_its_own_utility_objects", id(u) not in seen)
                seen[id(u)] = z
            h.check("every_zone_has_utilities", len(z.hot_utilities) >= 1 and len(z.cold_utilities) >= 1)
    return ob


LEAVES = {"flat": [("Site", "A"), ("Site", "B")], "nested": [("Site", "A", "B"), ("Site", "B")], "similar_names": [("Site", "P", "A"), ("Site", "P", "XA"), ("Site", "B")]}
NODES = {"flat": [("Site",), ("Site", "A"), ("Site", "B")], "nested": [("Site",), ("Site", "A"), ("Site", "A", "B"), ("Site", "B")],
         "similar_names": [("Site",), ("Site", "P"), ("Site", "P", "A"), ("Site", "P", "XA"), ("Site", "B")]}


def _resolves_to_leaf(comps, tree_kind):
    """Specification of label resolution against a user tree: the root's own name asks for a new process zone; otherwise the label
    must be the full path of a leaf, or the tail of exactly one node path, that node being a leaf."""
    if comps == ("Site",):
        return True
    if comps in LEAVES[tree_kind]:
        return True
    cands = [p for p in NODES[tree_kind] if len(p) >= len(comps) and p[len(p) - len(comps):] == comps]
    return len(cands) == 1 and cands[0] in LEAVES[tree_kind]


def _resolved(comps, tree_kind):
    if comps in NODES[tree_kind]:
        return comps
    cands = [p for p in NODES[tree_kind] if len(p) >= len(comps) and p[len(p) - len(comps):] == comps]
    return cands[0] if len(cands) == 1 else None


def _norm(label):
    return tuple(p.strip() for p in label.split("/") if p.strip())


def _is_tail(a, b):
    """a is a proper tail of b, or equals the last components of b (a != b)."""
    return a != b and len(a) <= len(b) and b[len(b) - len(a):] == a


def _deps(module, names, prefix, why):
    """callee contracts this property's clauses are stated against, discharged here as well (same harness objects, other names)"""
    out = []
    for o in module.obligations():
        base = o.name.split("[")[0]
        if base in names and o.tier == "quick":
            out.append(Obligation(o.name.replace(base.split(".")[0] + ".", prefix, 1), o.fn, kind=o.kind, functions=o.functions, bound=o.bound, max_paths=o.max_paths, params=o.params,
                                  timeout_ms=o.timeout_ms, expect=o.expect, stubs=o.stubs, runner=o.runner, time_budget_s=o.time_budget_s,
                                  doc=f"(callee contract, shared with {base.split('.')[0]}: {why}) " + (o.doc or "")))
    return out


def obligations():
    fs = [dp.prepare_problem, dp._validate_zone_tree_structure, dp._rewrite_stream_zones_from_tree, dp._get_process_streams_in_each_subzone, dp._create_nested_zones,
          dp._set_utilities_for_zone_and_subzones, Zone.import_hot_and_cold_streams_from_sub_zones]
    obs = []
    base = Obligation("C10.conserved.b", _ob(2), kind="smallscope", functions=fs, max_paths=400000, time_budget_s=600,
                      bound=f"every pair of streams over {len(LABELS)} labels x hot/cold x duplicate names x 3 zone-tree variants (exhaustive)", doc="CONSERVED, OWN-UTILS")
    obs += split(base, zone_tree=TREES)
    obs.append(Obligation("C10.similar_names.b", _ob(2, SIMILAR_LABELS, ["similar_names"]), kind="smallscope", functions=fs, max_paths=400000, time_budget_s=600,
                          bound=f"every pair of streams over {len(SIMILAR_LABELS)} labels against a user tree whose zone names end alike as strings (A / XA) (exhaustive)",
                          doc="CONSERVED: labels are resolved by path COMPONENTS, not by string endings"))
    obs.append(Obligation("C10.generated_names.b", _ob(3, GENERATED_LABELS, [None]), kind="smallscope", functions=fs, max_paths=400000, time_budget_s=600,
                          bound=f"every triple of streams over {len(GENERATED_LABELS)} labels that address or resemble generated unit-operation zones, no tree (exhaustive)",
                          doc="CONSERVED: generated unit-operation names never take over an existing zone"))
    base3 = Obligation("C10.conserved3.b", _ob(3), kind="smallscope", tier="thorough", functions=fs, max_paths=4000000, time_budget_s=3000,
                       bound=f"every triple of streams over {len(LABELS)} labels (exhaustive)")
    obs += split(base3, zone_tree=TREES, label0=LABELS)
    from . import C19
    obs += _deps(C19, ("C19.coll.ops.b",), "C10.dep.", "a collection keeps every member it is given, also when names clash")
    return obs
