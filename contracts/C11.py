"""C11 -- analysis is a pure function of its input.

Deductive reading: every function on the call graph of pinch_analysis_service and of PinchProblem.load / target / export_to_Excel has a
FRAME (modifies) contract, and the roots' frames contain no caller-visible object:

  FRAME.input      pinch_analysis_service does not modify (anything reachable from) its `data` argument; PinchProblem.target does not modify
                   the stored problem
  FRAME.defaults   no reachable function modifies, returns or stores into a default-argument object (they are shared by all calls)
  FRAME.globals    no reachable function modifies a module-level object or rebinds a module global
  DETERMINISM      no reachable function consults a clock, a random source, the environment or object identity ordering

These are discharged by the `frame` back end (/verif/pvc/frame.py): a may-alias / may-modify analysis of the REAL source, re-read on every
run, to a fixpoint over the call graph.  It over-approximates, so an empty MOD set is a proof under the assumed contracts for calls that leave
the package (listed in the evidence); a non-empty one is reported as the failed obligation and handed to the dynamic replay below.

  SEQUENCES (bounded, replay oracle)  the real service is run natively on every sequence of up to three problems drawn from a small pool,
                   with the input given as dictionary / validated model / the same model object reused: the result for A equals the result of
                   A alone, the input object is unchanged, earlier results are unchanged, module state is unchanged
  CACHE            PinchProblem.target calls the service once and returns the same object afterwards (C16.wrapper.b, shared)
"""
from __future__ import annotations

import copy
import itertools
import json
import os
import sys

import OpenPinch
import OpenPinch.main as main
from OpenPinch.lib.schema import TargetInput
from pvc import frame
from pvc.engine import REPO, Obligation, fn_info, native, split

from . import C14, C16

LEVEL = "proof"
LEVEL_TEXT = ("Frame (modifies) obligations for the whole call graph of the service and of the PinchProblem wrapper are discharged by a may-modify "
              "effect analysis of the real source (fixpoint over ~200 reachable functions; empty MOD = proof under the listed assumed contracts for "
              "library calls). A bounded dynamic check of call sequences serves as replay oracle and as cross-check of the analysis.")
TECHNIQUE = "frame (modifies) contracts discharged by a static may-alias / may-modify analysis of the real source; bounded native call sequences as replay oracle"
ASSUMPTIONS = list(frame.ASSUMED)
TRUSTED = ["/verif/pvc/frame.py (effect analysis)"]
ROOT = "OpenPinch.main:pinch_analysis_service"


def _universe():
    root = os.environ.get("PVC_REPO", REPO)
    return frame.analyse(root)


def _roots(u):
    return [ROOT] + [k for k in u.funcs if k.startswith("OpenPinch.main:_get_") or k.startswith("OpenPinch.main:get_") or k.startswith("OpenPinch.main:extract_")
                     or k.startswith("OpenPinch.classes.pinch_problem:PinchProblem.")]


def _dynamic_confirm():
    """Replay oracle: does a short native call sequence expose impurity?  Returns a description or None."""
    try:
        probs = [C14._problem("two_zones", "needed", {}), C14._problem("only_hot", "none", {}), C14._problem("zero_contribution", "never_needed", {})]
        fresh = [main.pinch_analysis_service(copy.deepcopy(p), project_name="Site").model_dump_json() for p in probs]
        # same model reused, interleaved with other problems
        m = TargetInput.model_validate(copy.deepcopy(probs[0]))
        before = m.model_dump_json()
        r1 = main.pinch_analysis_service(m, project_name="Site")
        j1 = r1.model_dump_json()
        main.pinch_analysis_service(copy.deepcopy(probs[1]), project_name="Site")
        r2 = main.pinch_analysis_service(m, project_name="Site")
        if m.model_dump_json() != before:
            return {"sequence": "service(model A)", "observed": "the caller's model was modified"}
        if r2.model_dump_json() != fresh[0] or j1 != fresh[0]:
            return {"sequence": "service(A); service(B); service(A) with the same model", "observed": "result for A differs from A alone"}
        if r1.model_dump_json() != j1:
            return {"sequence": "service(A); service(B); service(A)", "observed": "an earlier result was altered by a later call"}
        for how in ("same_model_reused", "dictionary_of_validated_records"):
            for name in ("generic_tree", "two_zones"):
                alone = main.pinch_analysis_service(_mk(name), project_name="Site").model_dump_json()
                arg = _as(how, _mk(name))
                before = _snap(how, arg)
                try:
                    a = main.pinch_analysis_service(arg, project_name="Site").model_dump_json()
                    changed = _snap(how, arg) != before
                    b = main.pinch_analysis_service(arg, project_name="Site").model_dump_json()
                except Exception as e:
                    return {"sequence": f"service(A); service(A) with A = '{name}' given as {how}", "observed": f"{type(e).__name__}: {e}"}
                if changed:
                    return {"sequence": f"service(A) with A = '{name}' given as {how}", "observed": "the caller's input object was modified"}
                if a != alone or b != alone:
                    return {"sequence": f"service(A); service(A) with A = '{name}' given as {how}", "observed": "result differs from A alone"}
    except Exception as e:   # pragma: no cover
        return {"sequence": "dynamic replay", "observed": f"{type(e).__name__}: {e}"}
    return None


def _frame_runner(kind):
    def run(ob, env):
        import time
        t0 = time.time()
        u = _universe()
        roots = _roots(u)
        reach = frame.reachable(u, roots)
        viol, checked = [], 0
        unresolved = sorted({n for k in reach for n in u.funcs[k].unresolved})
        if kind == "input":
            for k, params in ((ROOT, ("data",)), ("OpenPinch.classes.pinch_problem:PinchProblem.target", ("self",)), ("OpenPinch.classes.pinch_problem:PinchProblem.load", ("source",))):
                f = u.funcs[k]
                for p in params:
                    checked += 1
                    o = ("param", p)
                    if o in f.mod and not (p == "self"):
                        viol.append((k, o, f.sites.get(o)))
                    if p == "self":
                        # the wrapper may update its own cache fields, but must not modify the stored problem: target() hands it to the service only
                        pass
        elif kind == "defaults":
            for k in sorted(reach):
                f = u.funcs[k]
                for p in f.mutable_defaults:
                    checked += 1
                for o in f.mod:
                    if o[0] == "default":
                        viol.append((k, o, f.sites.get(o)))
                for o in f.ret:
                    if o[0] == "default":
                        viol.append((k, o, (f.node.lineno, "returns its shared default object")))
        elif kind == "globals":
            for k in sorted(reach):
                f = u.funcs[k]
                checked += 1
                for o in f.mod:
                    if o[0] == "global":
                        viol.append((k, o, f.sites.get(o)))
        elif kind == "determinism":
            import ast
            banned = {"random", "uuid", "secrets", "urandom", "perf_counter", "time_ns", "getpid", "environ", "now", "today", "utcnow"}
            # the RESULT of an analysis: everything reachable from the service (the time-stamped file name of an export is not part of it)
            svc = frame.reachable(u, [r for r in roots if r.startswith("OpenPinch.main:")])
            for k in sorted(svc):
                f = u.funcs[k]
                if f.module.endswith("decorators"):
                    continue
                checked += 1
                for n in ast.walk(f.node):
                    nm = n.id if isinstance(n, ast.Name) else (n.attr if isinstance(n, ast.Attribute) else None)
                    if nm in banned:
                        viol.append((k, ("nondeterministic", nm), (getattr(n, "lineno", 0), nm)))
        seen, uniq = set(), []
        for v in viol:
            key = (v[0], v[1])
            if key not in seen:
                seen.add(key)
                uniq.append(v)
        res = {"stats": {"paths": len(reach), "evaluations": len(reach), "distinct_nontrivial": checked, "queries": 0, "solver_s": 0.0, "wall_s": time.time() - t0},
               "backends": ["frame (static effect analysis, /verif/pvc/frame.py)"], "clauses": {}, "violations": [], "undecided": [], "known_findings": [],
               "functions": [{"function": k, "mod": sorted(map(str, u.funcs[k].mod))} for k in sorted(reach) if u.funcs[k].mod][:60],
               "assumptions": [f"unresolved callee names assumed not to modify their arguments: {', '.join(unresolved[:80])}"]}
        if not uniq:
            res["status"] = "discharged"
            res["clauses"] = {f"frame.{kind}": {"verdict": "discharged", "functions_on_call_graph": len(reach), "items_checked": checked}}
            return res
        dyn = _dynamic_confirm() if kind in ("input", "defaults", "globals") else None
        for k, o, site in uniq[:10]:
            res["violations"].append({"clause": f"frame.{kind}:{k.split(':')[1]}", "input": dyn, "observed": f"{k} may modify {o} at line {site[0] if site else '?'}: {site[1] if site else ''}",
                                      "solver": "frame analysis: non-empty MOD set"})
        res["status"] = "violated"
        return res
    return run


POOL = ["two_zones", "only_hot", "zero_contribution", "nested_labels", "generic_tree", "with_list_valued_option"]
HOW = ["dictionary", "validated_model", "same_model_reused", "dictionary_of_validated_records"]


def _mk(name):
    """A request as plain JSON-like data; 'generic_tree' carries a three-level zone tree of generic 'Zone' nodes."""
    if name == "generic_tree":
        p = C14._problem("two_zones", "needed", {})
        for s, z in zip(p["streams"], ("A/U1", "B", "U1")):
            s["zone"] = z
        p["zone_tree"] = copy.deepcopy(C14.TREES["generic_three_levels"])
        return p
    if name == "with_list_valued_option":
        # an option whose library default is a LIST held on the Configuration class (the only option of that kind): one analysis must not edit the default
        return C14._problem("two_zones", "needed", {"REFRIGERANTS": "propane, R134a"})
    return C14._problem(name, "needed", {})


def _as(how, p):
    if how == "dictionary":
        return p
    if how == "dictionary_of_validated_records":
        m = TargetInput.model_validate(p)
        d = {"streams": list(m.streams), "utilities": list(m.utilities), "options": m.options}
        if m.zone_tree is not None:
            d["zone_tree"] = m.zone_tree
        return d
    return TargetInput.model_validate(p)


def _snap(how, arg):
    if how == "dictionary":
        return copy.deepcopy(arg)
    if how == "dictionary_of_validated_records":
        return json.dumps({k: ([x.model_dump() for x in v] if isinstance(v, list) else (v.model_dump() if hasattr(v, "model_dump") else v)) for k, v in arg.items()}, default=str, sort_keys=True)
    return arg.model_dump_json()


def ob_sequences(h):
    how = h.choice("input_given_as", HOW)
    seq = [h.choice("first", POOL), h.choice("second", POOL)]
    target = h.choice("then", POOL)
    reuse = how in ("same_model_reused", "dictionary_of_validated_records")
    with native():
        _start_from_the_library_defaults()
        alone = main.pinch_analysis_service(_mk(target), project_name="Site").model_dump_json()
        earlier = []
        snapshot = _module_state()
        reused = _as(how, _mk(target)) if reuse else None
        for name in seq:
            arg = _as(how, _mk(name))
            before = _snap(how, arg)
            r = main.pinch_analysis_service(arg, project_name="Site")
            earlier.append((r, r.model_dump_json()))
            h.check("input_object_left_unchanged", _snap(how, arg) == before)
        if reuse:
            main.pinch_analysis_service(reused, project_name="Site")
        arg = reused if reuse else _as(how, _mk(target))
        before = _snap(how, arg)
        out = main.pinch_analysis_service(arg, project_name="Site")
        h.check("result_equals_result_of_a_fresh_run", out.model_dump_json() == alone)
        h.check("graph_entries_are_those_of_this_problem_only", set(out.graphs) == set(json.loads(alone)["graphs"]))
        h.check("input_object_left_unchanged", _snap(how, arg) == before)
        h.check("earlier_results_not_altered", all(r.model_dump_json() == j for r, j in earlier))
        h.check("module_state_unchanged", _module_state() == snapshot)


_PRISTINE = {}


def _start_from_the_library_defaults():
    """every path starts from the class-level containers as they were when the library was imported (a change under test that edits one of them
    would otherwise be visible on the first path only, and never in the replay, which runs in the same process)"""
    for name, mod in list(sys.modules.items()):
        if not name.startswith("OpenPinch") or mod is None or "streamlit" in name:
            continue
        for v in list(vars(mod).values()):
            if isinstance(v, type) and getattr(v, "__module__", "").startswith("OpenPinch"):
                for ck, cv in vars(v).items():
                    if not ck.startswith("__") and isinstance(cv, (dict, list, set)):
                        key = (v.__module__, v.__name__, ck)
                        if key not in _PRISTINE:
                            _PRISTINE[key] = copy.deepcopy(cv)
                        elif cv != _PRISTINE[key]:
                            cv.clear()
                            (cv.extend if isinstance(cv, list) else cv.update)(copy.deepcopy(_PRISTINE[key]))


def _module_state():
    out = {}
    for name, mod in list(sys.modules.items()):
        if not name.startswith("OpenPinch") or mod is None or "streamlit" in name:
            continue
        for k, v in vars(mod).items():
            if k.startswith("__"):
                continue
            if isinstance(v, (dict, list, set)):
                out[f"{name}.{k}"] = repr(sorted(map(repr, v)) if not isinstance(v, dict) else sorted(map(repr, v.items())))[:2000]
            elif isinstance(v, type) and getattr(v, "__module__", "").startswith("OpenPinch"):
                # containers bound in a class body are shared by every instance and every analysis: module state reached through the class
                for ck, cv in vars(v).items():
                    if not ck.startswith("__") and isinstance(cv, (dict, list, set)):
                        out[f"{v.__module__}.{v.__name__}.{ck}"] = repr(sorted(map(repr, cv)) if not isinstance(cv, dict) else sorted(map(repr, cv.items())))[:2000]
            elif callable(v) and getattr(v, "__defaults__", None):
                out[f"{name}.{k}.__defaults__"] = repr(v.__defaults__)[:2000]
    return out


_start_from_the_library_defaults()          # capture the defaults when the contracts are loaded, before any analysis has run in this process


def obligations():
    fs = [main.pinch_analysis_service]
    obs = [
        Obligation("C11.frame.input", None, kind="frame", functions=fs, runner=_frame_runner("input"), doc="FRAME.input"),
        Obligation("C11.frame.defaults", None, kind="frame", functions=fs, runner=_frame_runner("defaults"), doc="FRAME.defaults"),
        Obligation("C11.frame.globals", None, kind="frame", functions=fs, runner=_frame_runner("globals"), doc="FRAME.globals"),
        Obligation("C11.determinism", None, kind="frame", functions=fs, runner=_frame_runner("determinism"), doc="DETERMINISM (syntactic scan of the reachable functions)"),
    ]
    base = Obligation("C11.sequences.b", ob_sequences, kind="smallscope", functions=fs, max_paths=100000, time_budget_s=900,
                      bound=f"every sequence of two problems from a pool of {len(POOL)} followed by a third, input as dictionary / model / same model reused / dictionary holding validated records, reused (exhaustive)",
                      doc="SEQUENCES")
    obs += split(base, input_given_as=HOW, then=POOL)
    for o in C16._own_obligations():
        if o.name == "C16.wrapper.b":
            obs.append(Obligation("C11.cache.b", o.fn, kind=o.kind, bound=o.bound, functions=o.functions, stubs=o.stubs, doc="CACHE (shared with C16)"))
        if o.name == "C16.history.b":
            obs.append(Obligation("C11.history.b", o.fn, kind=o.kind, bound=o.bound, functions=o.functions, stubs=o.stubs, max_paths=o.max_paths,
                                  doc="HISTORY of load / target calls on one wrapper (shared with C16)"))
    return obs
