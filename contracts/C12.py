"""C12 -- results are invariant under equivalent descriptions of the problem.

A relational property: the real code is executed TWICE inside one harness, on a problem and on its transformed description, and the
contract relates the two results.

  TRANSLATE  all temperatures + c           =>  same targets, same curves, rows and pinch temperatures moved by c
  SCALE      all duties x lambda (2, 1/2, 10) =>  targets, curves and utility duties x lambda, temperatures unchanged
  MIRROR     T -> -T, hot <-> cold           =>  Qh <-> Qc, heat recovery unchanged, pinches negated and swapped;
                                                 utility assignment on a heating profile = assignment on the mirrored cooling profile
  PERMUTE    streams handed over in another order (also with equal supply temperatures)  =>  identical table
  SPLIT      a stream cut at an interior temperature, or into two parallel branches      =>  identical targets and curve values
  RENAME     zones renamed / listed in another order  =>  same tree up to the renaming (small scope through the real prepare_problem)

Preconditions: ONGRID, SEP (C01) and TOLSAFE (a quantity compared with the absolute tolerance is 0 or clearly larger, also after scaling).
"""
from __future__ import annotations

import OpenPinch.analysis.data_preparation as dp
import OpenPinch.analysis.problem_table_analysis as pta
import OpenPinch.analysis.utility_targeting as ut
from OpenPinch.classes.stream import Stream
from OpenPinch.classes.stream_collection import StreamCollection
from OpenPinch.lib.schema import StreamSchema
from pvc.engine import Obligation, native, split
from pvc.npshim import NP as npx
from pvc.sym import And, Implies, Not, Or

from .C01 import assume_sep, split_kinds
from .shared import COLD, HOT, PT, tol

LEVEL = "exploration"
LEVEL_TEXT = ("Two-run (relational) bounded symbolic execution of the real cascade, pinch location and utility assignment on 1..2 streams with symbolic "
              "temperatures and contributions (heat-capacity flow rates from a small concrete set), for each transformation of the group; zone renaming "
              "through a small-scope enumeration of the real prepare_problem. Complete within the bound, under ONGRID, SEP and TOLSAFE.")
ASSUMPTIONS = ["ONGRID, SEP (C01); TOLSAFE: scaling never moves a compared quantity across the absolute tolerance 1e-6"]
CPS = (1.0, 3.0)


def _streams(h, m, shift=0.0, scale=1.0, mirror=False, prefix="s"):
    h.ongrid_mode(6)
    out = []
    for i in range(m):
        ts, tt = h.real(f"{prefix}{i}_ts", grid=6), h.real(f"{prefix}{i}_tt", grid=6)
        dt = h.real(f"{prefix}{i}_dt", lo=0, grid=6)
        cp = h.choice(f"{prefix}{i}_cpv", list(CPS))
        d = h.choice(f"{prefix}{i}_dir", ["hot", "cold"])
        h.assume(ts > tt if d == "hot" else ts < tt)
        span = (ts - tt) if d == "hot" else (tt - ts)
        a, b = (ts + shift, tt + shift) if not mirror else (-ts, -tt)
        out.append(Stream(f"{prefix}{i}", a, b, dt_cont=dt, heat_flow=cp * scale * span, htc=1.0))
    return out


def _cascade(h, streams):
    hot, cold, allc = split_kinds(streams)
    h.stub(pta, "_insert_temperature_interval_into_pt_at_constant_h", lambda pt: pt)
    pt = pta.get_process_heat_cascade(hot_streams=hot, cold_streams=cold, all_streams=allc, zone_config=None, is_shifted=True)
    n = len(pt)
    cols = {c: [pt.loc[k, c] for k in range(n)] for c in (PT.T.value, PT.H_HOT.value, PT.H_COLD.value, PT.H_NET.value)}
    return pt, cols, pta.set_zonal_targets(pt, pt)


def ob_translate(h):
    m = h.choice("streams", [1, 2])
    c = h.real("shift", grid=6)
    A = _streams(h, m)
    assume_sep(h, A, finding="KF-C01-unseparated")
    B = _streams(h, m, shift=c)
    ptA, cA, tA = _cascade(h, A)
    ptB, cB, tB = _cascade(h, B)
    h.check("same_number_of_rows", len(ptA) == len(ptB))
    if len(ptA) != len(ptB):
        return
    for k in range(len(ptA)):
        h.check("rows_move_by_the_shift", h.eq(cB[PT.T.value][k], cA[PT.T.value][k] + c))
        for col in (PT.H_HOT.value, PT.H_COLD.value, PT.H_NET.value):
            h.check("curves_unchanged", h.eq(cB[col][k], cA[col][k]))
    for key in ("hot_utility_target", "cold_utility_target", "heat_recovery_target"):
        h.check("targets_unchanged", h.eq(tB[key], tA[key]))
    pa, pb = ptA.pinch_temperatures(), ptB.pinch_temperatures()
    h.check("pinch_presence_unchanged", (pa[0] is None) == (pb[0] is None))
    if pa[0] is not None and pb[0] is not None:
        h.check("pinches_move_by_the_shift", And(h.eq(pb[0], pa[0] + c), h.eq(pb[1], pa[1] + c)))


def ob_scale(h):
    m = h.choice("streams", [1, 2])
    lam = h.choice("scale", [2.0, 0.5, 10.0])
    A = _streams(h, m)
    assume_sep(h, A, finding="KF-C01-unseparated")
    B = _streams(h, m, scale=lam)
    ptA, cA, tA = _cascade(h, A)
    # TOLSAFE: the only duty the cascade compares with tol is the heat recovery (to decide on the projection rows)
    h.assume(Or(tA["heat_recovery_target"] == 0, And(tA["heat_recovery_target"] > 10 * tol, tA["heat_recovery_target"] * lam > 10 * tol)))
    for v in cA[PT.H_NET.value]:
        h.assume(Or(v == 0, And(v > 10 * tol, v * lam > 10 * tol)))
    ptB, cB, tB = _cascade(h, B)
    h.check("same_number_of_rows", len(ptA) == len(ptB))
    if len(ptA) != len(ptB):
        return
    for k in range(len(ptA)):
        h.check("rows_unchanged", h.eq(cB[PT.T.value][k], cA[PT.T.value][k]))
        for col in (PT.H_HOT.value, PT.H_COLD.value, PT.H_NET.value):
            h.check("curves_scale", h.eq(cB[col][k], lam * cA[col][k]))
    for key in ("hot_utility_target", "cold_utility_target", "heat_recovery_target"):
        h.check("targets_scale", h.eq(tB[key], lam * tA[key]))
    pa, pb = ptA.pinch_idx(), ptB.pinch_idx()
    h.check("pinch_rows_unchanged", pa[0] == pb[0] and pa[1] == pb[1] and bool(pa[2]) == bool(pb[2]))


def ob_mirror(h):
    m = h.choice("streams", [1, 2])
    A = _streams(h, m)
    assume_sep(h, A, finding="KF-C01-unseparated")
    B = _streams(h, m, mirror=True)
    ptA, cA, tA = _cascade(h, A)
    ptB, cB, tB = _cascade(h, B)
    n = len(ptA)
    h.check("same_number_of_rows", n == len(ptB))
    if n != len(ptB):
        return
    for k in range(n):
        h.check("rows_negated_and_reversed", h.eq(cB[PT.T.value][k], -cA[PT.T.value][n - 1 - k]))
        h.check("net_curve_reversed", h.eq(cB[PT.H_NET.value][k], cA[PT.H_NET.value][n - 1 - k]))
    h.check("Qh_and_Qc_swap", And(h.eq(tB["hot_utility_target"], tA["cold_utility_target"]), h.eq(tB["cold_utility_target"], tA["hot_utility_target"])))
    h.check("heat_recovery_unchanged", h.eq(tB["heat_recovery_target"], tA["heat_recovery_target"]))
    h.exclude_known("KF-C06-all-zero", And(*[abs(v) < tol for v in cA[PT.H_NET.value]]))
    pa, pb = ptA.pinch_temperatures(), ptB.pinch_temperatures()
    h.check("pinch_presence_unchanged", (pa[0] is None) == (pb[0] is None))
    if pa[0] is not None and pb[0] is not None:
        h.check("pinches_negated_and_swapped", And(h.eq(pb[0], -pa[1]), h.eq(pb[1], -pa[0])))


def ob_mirror_assign(h):
    """Utility assignment: hot utilities on a heating profile vs the mirrored cold utilities on the mirrored cooling profile."""
    n = h.choice("rows", [2, 3, 4])
    p = h.choice("pinch_row", list(range(1, n)))
    k = h.choice("utilities", [1, 2])
    T = h.reals("T", n)
    for i in range(n - 1):
        h.assume(T[i] - T[i + 1] >= 1)
    Hs = h.reals("H", n)
    for i in range(n):
        h.assume(Hs[i] >= 0)
    for i in range(p, n):
        h.assume(Hs[i] == 0)
    for i in range(p):
        h.assume(Or(Hs[i] == Hs[i + 1], Hs[i] - Hs[i + 1] > tol))
    h.assume(Hs[0] > tol)
    lv = [(h.real(f"u{i}_Ts"), h.real(f"u{i}_glide")) for i in range(k)]
    for ts, g in lv:
        h.assume(And(g >= 0.01, g <= 50))
    for (a, _), (b, _) in zip(lv, lv[1:]):
        h.assume(a > b)
    h.assume(lv[0][0] - lv[0][1] >= T[0])              # hottest utility sufficient
    mk = npx.array if h.symbolic else (lambda x: __import__("numpy").array(x, dtype=float))
    hot_us = [Stream(f"HU{i}", ts, ts - g, dt_cont=0.0, heat_flow=0.0, is_process_stream=False) for i, (ts, g) in enumerate(lv)]
    ut._target_utility(hot_us, mk(list(T)), mk(list(Hs)), p, n - 1)
    # mirrored problem: temperatures negated, table reversed, cold utilities coldest first, cooling profile stored negative
    Tm = [-t for t in reversed(T)]
    Hm = [-x for x in reversed(Hs)]
    cold_us = [Stream(f"CU{i}", -ts, -ts + g, dt_cont=0.0, heat_flow=0.0, is_process_stream=False) for i, (ts, g) in enumerate(lv)]
    # utility collections iterate by descending supply temperature on both sides: the mirror image of "hottest first" is handed over reversed
    ut._target_utility(list(reversed(cold_us)), mk(Tm), mk(Hm), 0, n - 1 - p)
    for a, b in zip(hot_us, cold_us):
        h.check("mirrored_utility_gets_the_same_duty", h.eq(a.heat_flow, b.heat_flow))


def ob_permute(h):
    A = _streams(h, 2)
    assume_sep(h, A, finding="KF-C01-unseparated")
    ptA, cA, tA = _cascade(h, A)
    ptB, cB, tB = _cascade(h, list(reversed(A)))
    h.check("same_number_of_rows", len(ptA) == len(ptB))
    for k in range(min(len(ptA), len(ptB))):
        for col in (PT.T.value, PT.H_HOT.value, PT.H_COLD.value, PT.H_NET.value):
            h.check("table_identical_for_either_order", h.eq(cB[col][k], cA[col][k]))


def ob_split(h):
    how = h.choice("split", ["in_series_at_an_interior_temperature", "into_two_parallel_branches"])
    h.ongrid_mode(6)
    ts, tt = h.real("s0_ts", grid=6), h.real("s0_tt", grid=6)
    dt = h.real("s0_dt", lo=0, grid=6)
    d = h.choice("s0_dir", ["hot", "cold"])
    h.assume(ts - tt > 0.001 if d == "hot" else tt - ts > 0.001)
    cp = 3.0
    span = (ts - tt) if d == "hot" else (tt - ts)
    other = _streams(h, 1, prefix="o")
    whole = Stream("w", ts, tt, dt_cont=dt, heat_flow=cp * span, htc=1.0)
    if how.startswith("in_series"):
        tm = h.real("cut", grid=6)
        h.assume(And(tm < ts, tm > tt) if d == "hot" else And(tm > ts, tm < tt))
        parts = [Stream("p1", ts, tm, dt_cont=dt, heat_flow=cp * abs(ts - tm), htc=1.0), Stream("p2", tm, tt, dt_cont=dt, heat_flow=cp * abs(tm - tt), htc=1.0)]
    else:
        parts = [Stream("p1", ts, tt, dt_cont=dt, heat_flow=1.0 * span, htc=1.0), Stream("p2", ts, tt, dt_cont=dt, heat_flow=2.0 * span, htc=1.0)]
    assume_sep(h, [whole] + other + parts, finding="KF-C01-unseparated")
    ptA, cA, tA = _cascade(h, [whole] + other)
    ptB, cB, tB = _cascade(h, parts + other)
    for key in ("hot_utility_target", "cold_utility_target", "heat_recovery_target"):
        h.check("targets_unchanged_by_the_split", h.eq(tB[key], tA[key]))
    # every row of the unsplit table is a row of the split table with the same curve values
    for k in range(len(ptA)):
        j = [i for i in range(len(ptB)) if bool(h.eq(cB[PT.T.value][i], cA[PT.T.value][k]))]
        h.check("row_of_the_whole_stream_table_present", len(j) == 1)
        if j:
            for col in (PT.H_HOT.value, PT.H_COLD.value, PT.H_NET.value):
                h.check("curve_value_unchanged_by_the_split", h.eq(cB[col][j[0]], cA[col][k]))


def ob_split_alone(h):
    how = h.choice("split", ["in_series_at_an_interior_temperature", "into_two_parallel_branches"])
    h.ongrid_mode(6)
    ts, tt = h.real("s0_ts", grid=6), h.real("s0_tt", grid=6)
    dt = h.real("s0_dt", lo=0, grid=6)
    d = h.choice("s0_dir", ["hot", "cold"])
    h.assume(ts - tt > 0.001 if d == "hot" else tt - ts > 0.001)
    cp = 3.0
    span = (ts - tt) if d == "hot" else (tt - ts)
    whole = Stream("w", ts, tt, dt_cont=dt, heat_flow=cp * span, htc=1.0)
    if how.startswith("in_series"):
        tm = h.real("cut", grid=6)
        h.assume(And(tm < ts, tm > tt) if d == "hot" else And(tm > ts, tm < tt))
        parts = [Stream("p1", ts, tm, dt_cont=dt, heat_flow=cp * abs(ts - tm), htc=1.0), Stream("p2", tm, tt, dt_cont=dt, heat_flow=cp * abs(tm - tt), htc=1.0)]
    else:
        parts = [Stream("p1", ts, tt, dt_cont=dt, heat_flow=1.0 * span, htc=1.0), Stream("p2", ts, tt, dt_cont=dt, heat_flow=2.0 * span, htc=1.0)]
    assume_sep(h, [whole] + parts, finding="KF-C01-unseparated")
    ptA, cA, tA = _cascade(h, [whole])
    ptB, cB, tB = _cascade(h, parts)
    for key in ("hot_utility_target", "cold_utility_target", "heat_recovery_target"):
        h.check("targets_unchanged_by_the_split", h.eq(tB[key], tA[key]))
    for k in range(len(ptA)):
        j = [i for i in range(len(ptB)) if bool(h.eq(cB[PT.T.value][i], cA[PT.T.value][k]))]
        h.check("row_of_the_whole_stream_table_present", len(j) == 1)
        if j:
            for col in (PT.H_HOT.value, PT.H_COLD.value, PT.H_NET.value):
                h.check("curve_value_unchanged_by_the_split", h.eq(cB[col][j[0]], cA[col][k]))


def ob_utilities(h):
    """TRANSLATE / MIRROR of the completion of user utilities and of the decision to add default utilities."""
    from types import SimpleNamespace
    from .C03 import cfg
    how = h.choice("transformation", ["translate", "mirror"])
    k = h.choice("utilities", [1, 2])
    c = h.real("shift")
    recs = []
    for i in range(k):
        kind = h.choice(f"u{i}_type", ["Hot", "Cold", "Both"])
        active = h.choice(f"u{i}_active", [True, False])
        ts = h.real(f"u{i}_ts")
        tt = ts if h.choice(f"u{i}_isothermal", [False, True]) else h.real(f"u{i}_tt")
        recs.append((kind, active, ts, tt, h.real(f"u{i}_dt", lo=0)))
    hu_t, cu_t = h.real("HU_T_min"), h.real("CU_T_max")
    h.stub(dp, "get_value", lambda v: v)
    mk = lambda kind, active, ts, tt, dt: SimpleNamespace(name="U", type=kind, active=active, t_supply=ts, t_target=tt, dt_cont=dt, price=10.0, htc=1.0, heat_flow=0.0)
    A, hu_a, cu_a = dp._complete_utility_data([mk(*r) for r in recs], cfg(), hu_t, cu_t)
    if how == "translate":
        B, hu_b, cu_b = dp._complete_utility_data([mk(kd, ac, ts + c, tt + c, dt) for kd, ac, ts, tt, dt in recs], cfg(), hu_t + c, cu_t + c)
        h.check("same_decision_on_the_default_hot_utility", bool(hu_a) == bool(hu_b))
        h.check("same_decision_on_the_default_cold_utility", bool(cu_a) == bool(cu_b))
        for a, b in zip(A, B):
            h.check("completed_utility_moves_by_the_shift", And(h.eq(b.t_supply, a.t_supply + c), h.eq(b.t_target, a.t_target + c), h.eq(b.dt_cont, a.dt_cont)))
    else:
        flip = {"Hot": "Cold", "Cold": "Hot", "Both": "Both"}
        # recorded finding of C03: the cold-side test subtracts the contribution instead of adding it, so a utility with a non-zero
        # contribution is judged differently as a cold utility than its mirror image is as a hot one
        h.exclude_known("KF-C03-default-cu-sign", Or(*[dt > 0 for *_, dt in recs]))
        # the mirror image of an isothermal TWO-WAY utility is not defined by the input format (it is completed with the glide of a cold
        # utility in either description): two-way utilities take part with an explicit glide
        for kd, ac, ts, tt, dt in recs:
            if kd == "Both":
                h.assume(Not(h.eq(ts, tt)))
        B, hu_b, cu_b = dp._complete_utility_data([mk(flip[kd], ac, -ts, -tt, dt) for kd, ac, ts, tt, dt in recs], cfg(), -cu_t, -hu_t)
        h.check("default_hot_utility_of_the_mirror_image_iff_default_cold_utility", bool(hu_b) == bool(cu_a))
        h.check("default_cold_utility_of_the_mirror_image_iff_default_hot_utility", bool(cu_b) == bool(hu_a))
        for (kd, *_), a, b in zip(recs, A, B):
            if True:
                h.check("completed_utility_is_mirrored", And(h.eq(b.t_supply, -a.t_supply), h.eq(b.t_target, -a.t_target)))


def ob_rename(h):
    ren = h.choice("renaming", [{"A": "X", "B": "Y"}, {"A": "B", "B": "A"}, {"A": "Zone 1", "B": "A2"}])
    labels = [h.choice(f"label{i}", ["A", "B", "A/B"]) for i in range(2)]
    if ("A/B" in labels and "B" in labels):
        return      # recorded finding of C10 (suffix labels)
    order = h.choice("listing_order", ["as_given", "reversed"])

    def build(lbls, rev):
        ss = [StreamSchema(zone=l, name=f"s{i}", t_supply=200.0 + i, t_target=100.0 + i, heat_flow=100.0 + 7 * i, dt_cont=5.0, htc=1.0) for i, l in enumerate(lbls)]
        if rev:
            ss = list(reversed(ss))
        return dp.prepare_problem(streams=ss, utilities=[], project_name="Site")

    def shape(z, inv):
        name = "/".join(inv.get(p, p) for p in [z.name])
        return (name if not name.startswith("O") else "O", sorted(round(float(s.heat_flow), 6) for s in list(z.hot_streams._streams.values()) + list(z.cold_streams._streams.values())),
                sorted((shape(s, inv) for s in z.subzones.values()), key=repr))
    with native():
        a = build(labels, False)
        b = build(["/".join(ren.get(p, p) for p in l.split("/")) for l in labels], order == "reversed")
        inv = {v: k for k, v in ren.items()}
        h.check("same_zone_tree_up_to_the_renaming", repr(shape(a, {})) == repr(shape(b, inv)))


def _deps(module, names, prefix, why):
    """callee contracts this property's clauses are stated against, discharged here as well (same harness objects, other names)"""
    out = []
    for o in module.obligations():
        base = o.name.split("[")[0]
        if base in names and o.tier == "quick":
            out.append(Obligation(o.name.replace(base.split(".")[0] + ".", prefix, 1), o.fn, kind=o.kind, functions=o.functions, bound=o.bound, max_paths=o.max_paths, params=o.params,
                                  timeout_ms=o.timeout_ms, expect=o.expect, stubs=o.stubs, runner=o.runner, time_budget_s=o.time_budget_s,
                                  doc=f"(callee contract, shared with {base.split('.')[0]}: {why}) " + (o.doc or "")))
    return out


def obligations():
    fs = [pta.get_process_heat_cascade, pta.create_problem_table_with_t_int, pta._sum_mcp_between_temperature_boundaries, pta.problem_table_algorithm, pta.set_zonal_targets]
    D = ["hot", "cold"]
    obs = []
    for nm, fn, doc in (("translate", ob_translate, "TRANSLATE"), ("scale", ob_scale, "SCALE"), ("mirror", ob_mirror, "MIRROR")):
        base = Obligation(f"C12.{nm}.b", fn, kind="bounded", functions=fs, max_paths=200000, timeout_ms=30000, doc=doc,
                          bound="1 stream (quick) / 2 streams; temperatures and contributions symbolic, heat-capacity flow rates from {1, 3} kW/K; both descriptions executed")
        obs += split(base, streams=[1])
        two = Obligation(f"C12.{nm}2.b", fn, kind="bounded", functions=fs, max_paths=2000000, timeout_ms=60000, doc=doc, tier="quick" if nm == "translate" else "thorough",
                         time_budget_s=0 if nm == "translate" else 3000, bound="2 streams; temperatures and contributions symbolic, heat-capacity flow rates from {1, 3} kW/K")
        obs += split(two, streams=[2], s0_dir=D, s1_dir=D, s0_cpv=list(CPS))
    obs += split(Obligation("C12.permute.b", ob_permute, kind="bounded", functions=fs + [StreamCollection._ensure_sorted], max_paths=200000, doc="PERMUTE",
                            bound="2 streams handed over in both orders (equal supply temperatures included)"), s0_dir=D, s1_dir=D)
    obs += split(Obligation("C12.split.b", ob_split, kind="bounded", functions=fs, max_paths=200000, doc="SPLIT", timeout_ms=60000, tier="thorough", time_budget_s=3000,
                            bound="one stream cut in series or into two parallel branches, next to one other stream; temperatures symbolic"), split=["in_series_at_an_interior_temperature", "into_two_parallel_branches"], s0_dir=D, o0_dir=D, o0_cpv=list(CPS))
    obs += split(Obligation("C12.split1.b", ob_split_alone, kind="bounded", functions=fs, max_paths=200000, doc="SPLIT (the stream alone)", timeout_ms=30000,
                            bound="one stream alone, cut in series or into two parallel branches; temperatures symbolic"), split=["in_series_at_an_interior_temperature", "into_two_parallel_branches"])
    obs.append(Obligation("C12.mirror.assign.b", ob_mirror_assign, kind="bounded", functions=[ut._target_utility, ut._assign_utility, ut._maximise_utility_duty], max_paths=200000,
                          bound="heating profiles of 2..4 rows with 1..2 hot utilities vs their mirror images", doc="MIRROR of the utility assignment"))
    obs.append(Obligation("C12.utilities.b", ob_utilities, kind="bounded", functions=[dp._complete_utility_data], max_paths=400000,
                          bound="1..2 supplied utilities of any type / activity, all values symbolic; both descriptions executed",
                          doc="TRANSLATE and MIRROR of the completed utility records and of the default-utility decision"))
    obs.append(Obligation("C12.rename.b", ob_rename, kind="smallscope", functions=[dp.prepare_problem], bound="two streams over labels {A, B, A/B} x three renamings x both listing orders (exhaustive)",
                          doc="RENAME"))
    from . import C06
    obs += _deps(C06, ("C06.idx.u", "C06.idx.b", "C06.record", "C06.serialise"), "C12.dep.",
                 "pinch rows of a cascade: the mirror / translation clauses compare pinch temperatures read through pinch_idx; a translated pinch may land on any real value, 0.0 included, and must reach the reported record")
    return obs
