"""C13 -- graph payloads reproduce the curves of the problem tables.

  _create_curve            POINTS     one data point per (x, y) pair, in order, each the 2-dp rounding of the pair; only None pairs are skipped
  _classify_segment        SIGN       class follows the sign of the enthalpy change; |change| <= 1e-3 is 'vertical'
  _segment_streamloc / _streamloc_colour / _graph_cc titles & arrows      finite maps, checked exhaustively
  _segment_bounds / _iter_gcc_segment_slices     PARTITION  slices cover [start, end], consecutive slices share exactly one point,
                                                            every step inside a slice has the slice's class
  clean_composite_curve    (C17: kept points reproduce the non-flat extent)
  get_output_graph_data    ONE SET PER RECORD  key set = the zone tree's target names, nothing left over from earlier calls
  _save_graph_data         the stored slices are the table columns rounded to 4 dp
"""
from __future__ import annotations

from types import SimpleNamespace

import OpenPinch.analysis.direct_integration_entry as di
import OpenPinch.analysis.graph_data as gd
from OpenPinch.lib.enums import ArrowHead, GraphType, LineColour, StreamLoc
from pvc.engine import Obligation
from pvc.sym import And, Implies, Not, Or

from .shared import PT, table, tol

LEVEL = "exploration"
LEVEL_TEXT = ("Path-complete symbolic execution of the scalar helpers (_create_curve, _classify_segment, colour / title / arrow maps) over all real "
              "arguments, bounded symbolic execution of the slicing helpers on curves of 2..5 points, exhaustive enumeration of small zone trees for the "
              "graph-set keys; the curve cleaning is C17's obligation. Bounded in curve length and tree size.")
NOT_COVERED = ["curve extents equal Qh / Qc / duties: inherited from C01/C05 (the table columns carry them) and C17 (cleaning keeps the non-flat extent)"]


def ob_points(h):
    n = h.choice("points", [1, 2, 3])
    xs, ys = h.reals("x", n), h.reals("y", n)
    with_none = h.choice("a_None_pair", [False, True])
    X, Y = list(xs), list(ys)
    if with_none:
        X.insert(1 if n > 1 else 0, None)
        Y.insert(1 if n > 1 else 0, 3.0)
    c = gd._create_curve("t", 1, X, Y)
    pts = c["data_points"]
    h.check("one_point_per_pair_none_skipped", len(pts) == n)
    for k in range(n):
        h.check("point_is_display_rounding_of_pair", And(abs(pts[k]["x"] - xs[k]) <= 0.005, abs(pts[k]["y"] - ys[k]) <= 0.005))
        h.check("point_is_round_2dp", And(h.eq(pts[k]["x"], round(xs[k], 2)), h.eq(pts[k]["y"], round(ys[k], 2))))


def ob_classify(h):
    d = h.real("enthalpy_change")
    util = h.choice("is_utility_profile", [False, True])
    c = gd._classify_segment(d, util)
    if abs(d) <= 1e-3:
        h.check("small_change_is_vertical", c == StreamLoc.Unassigned)
    elif d > 0:
        h.check("positive_change_class", c == (StreamLoc.HotU if util else StreamLoc.ColdS))
    else:
        h.check("negative_change_class", c == (StreamLoc.ColdU if util else StreamLoc.HotS))
    loc = gd._segment_streamloc(c)
    h.check("streamloc_is_the_class", loc == c)
    col = gd._streamloc_colour(loc)
    want = {StreamLoc.HotS: LineColour.HotS.value, StreamLoc.ColdS: LineColour.ColdS.value, StreamLoc.HotU: LineColour.HotU.value,
            StreamLoc.ColdU: LineColour.ColdU.value}.get(loc, LineColour.Other.value)
    h.check("colour_follows_class", col == want)


def ob_maps(h):
    for text, loc in ((StreamLoc.ColdS.value, StreamLoc.ColdS), (StreamLoc.HotS.value, StreamLoc.HotS), (StreamLoc.HotU.value, StreamLoc.HotU),
                      (StreamLoc.ColdU.value, StreamLoc.ColdU), ("anything else", StreamLoc.Unassigned)):
        h.check("streamloc_from_text", gd._segment_streamloc(text) == loc)
    key = h.choice("graph", [GraphType.CC.value, GraphType.TSP.value])
    loc = h.choice("stream_loc", [StreamLoc.HotS, StreamLoc.ColdS, StreamLoc.HotU, StreamLoc.ColdU, "Hot", "Cold", StreamLoc.HotS.value])
    seg = gd._graph_cc(key, loc, [100.0, 50.0], [10.0, 0.0])[0]
    hotlike = loc in (StreamLoc.HotS, StreamLoc.HotU, "Hot", StreamLoc.HotS.value)
    util = loc in (StreamLoc.HotU, StreamLoc.ColdU)
    h.check("title", seg["title"] == (("Hot Utility" if hotlike else "Cold Utility") if util else ("Hot CC" if hotlike else "Cold CC")))
    end_for_hot = ArrowHead.END.value if key != GraphType.TSP.value else ArrowHead.START.value
    start_for_cold = ArrowHead.START.value if key != GraphType.TSP.value else ArrowHead.END.value
    h.check("arrow", seg["arrow"] == (end_for_hot if hotlike else start_for_cold))
    h.check("both_points_emitted", len(seg["data_points"]) == 2)


def ob_series(h):
    """_create_graph_set with the two graph builders replaced by recorders: which table column feeds which series, and which series are
    classified as UTILITY profiles -- for every combination of graphs present and of the graph-affecting options."""
    from types import SimpleNamespace
    from OpenPinch.lib.enums import ProblemTableLabel as PT
    from pvc.engine import ReplayMismatch
    if not h.symbolic:
        raise ReplayMismatch("modular obligation: callees are recorders, no native replay")
    present = {g: h.choice(f"has_{g.name}", [True, False]) for g in (GraphType.GCC, GraphType.TSP, GraphType.SUGCC, GraphType.GCC_HP, GraphType.CC)}
    cfg = SimpleNamespace(DO_VERTICAL_GCC=h.choice("DO_VERTICAL_GCC", [False, True]), DO_ASSITED_HT=h.choice("DO_ASSITED_HT", [False, True]),
                          DO_BALANCED_CC=h.choice("DO_BALANCED_CC", [True, False]))
    t = SimpleNamespace(graphs={g.value: object() for g, on in present.items() if on}, config=cfg, name="Z/Direct Integration")
    seen = []
    h.stub(gd, "_make_gcc_graph", lambda **k: (seen.append(("gcc", k)), {"type": k["key"]})[1])
    h.stub(gd, "_make_composite_graph", lambda **k: (seen.append(("cc", k)), {"type": k["key"]})[1])
    out = gd._create_graph_set(t, "Z/Direct Integration")
    h.check("graph_set_named_after_its_record", out["name"] == "Z/Direct Integration")
    h.check("one_graph_per_table_present", sorted(g["type"] for g in out["graphs"]) == sorted(t.graphs))
    utility_columns = {PT.H_NET_UT.value, PT.H_NET_HP_PRO.value}
    for kind, k in seen:
        h.check("graph_built_from_its_own_table", k["data"] is t.graphs[k["key"]])
        if kind == "gcc":
            h.check("one_utility_flag_per_series", len(k["value_field"]) == len(k["is_utility_profile"]))
            h.check("utility_flag_goes_with_the_utility_column", all(bool(f) == (c in utility_columns) for c, f in zip(k["value_field"], k["is_utility_profile"])))
            h.check("series_columns_distinct", len(set(k["value_field"])) == len(k["value_field"]))
        else:
            locs = k.get("stream_types")
            if locs is not None:
                h.check("one_stream_location_per_column", len(locs) == len(k["col_keys"]))
                for c, loc in zip(k["col_keys"], locs):
                    is_ut = c in (PT.H_HOT_UT.value, PT.H_COLD_UT.value)
                    hot = c in (PT.H_NET_HOT.value, PT.H_HOT_UT.value, PT.H_HOT.value, PT.H_HOT_BAL.value)
                    want = (StreamLoc.HotU if hot else StreamLoc.ColdU) if is_ut else (StreamLoc.HotS if hot else StreamLoc.ColdS)
                    h.check("stream_location_goes_with_the_column", loc == want)


def _ob_slices(nmax):
    def ob(h):
        n = h.choice("points", list(range(2, nmax + 1)))
        util = h.choice("is_utility_profile", [False, True])
        x = h.reals("H", n)
        y = [float(100 - 10 * i) for i in range(n)]
        start, end = gd._segment_bounds(list(x))
        h.check("bounds_in_range", 0 <= start <= end <= n - 1 or (start == 0 and end == n - 1))
        out = list(gd._iter_gcc_segment_slices(list(x), list(y), util, None))
        if start >= end:
            h.check("flat_curve_has_no_slices", len(out) == 0)
            return
        pos = start
        for loc, is_vertical, xs, ys in out:
            h.check("slice_starts_where_previous_ended", h.eq(xs[0], x[pos]) if True else True)
            k = len(xs) - 1
            h.check("slice_non_empty", k >= 1)
            for j in range(pos, pos + k):
                cls = gd._classify_segment(x[j] - x[j + 1], util)
                h.check("every_step_has_the_slice_class", gd._segment_streamloc(cls) == loc)
            h.check("vertical_flag_matches_class", is_vertical == (loc == StreamLoc.Unassigned))
            h.check("temperatures_travel_with_enthalpies", all(float(a) == b for a, b in zip(ys, y[pos:pos + k + 1])))
            pos += k
        h.check("slices_cover_the_whole_non_flat_extent", pos == end)
        for (l1, *_), (l2, *_) in zip(out, out[1:]):
            h.check("neighbouring_slices_differ_in_class", l1 != l2)
    return ob


def ob_graph_sets(h):
    """Each record has exactly one graph set keyed by its own name -- also on the second and later calls."""
    # (records on the root, number of sub-zones with one record each); a community / region root has no record of its own
    shape = h.choice("tree", [(1, 0), (2, 0), (1, 2), (2, 1), (0, 2), (0, 1)])
    h.stub(gd, "_create_graph_set", lambda t, key: {"name": key, "graphs": []})
    old = gd._create_graph_set
    if not h.symbolic:
        gd._create_graph_set = lambda t, key: {"name": key, "graphs": []}
    try:
        def mk(prefix, shape):
            subs = {f"{prefix}Z{i}": SimpleNamespace(targets={f"{prefix}Z{i}/DI": object()}, subzones={}) for i in range(shape[1])}
            return SimpleNamespace(targets={f"{prefix}/T{i}": object() for i in range(shape[0])}, subzones=subs)
        first = gd.get_output_graph_data(mk("A", (2, 1)))
        zone = mk("B", shape)
        second = gd.get_output_graph_data(zone)
        want = set(zone.targets) | {k for z in zone.subzones.values() for k in z.targets}
        h.check("key_set_is_exactly_the_record_names", set(second) == want)
        h.check("each_set_named_by_its_key", all(v["name"] == k for k, v in second.items()))
        h.check("earlier_result_not_altered", set(first) == {"A/T0", "A/T1", "AZ0/DI"})
    finally:
        gd._create_graph_set = old


def ob_save_graph_data(h):
    n = 2
    cols = [PT.H_HOT.value, PT.H_COLD.value, PT.H_NET.value, PT.H_NET_NP.value, PT.H_NET_A.value, PT.H_NET_UT.value, PT.H_NET_V.value,
            PT.H_HOT_BAL.value, PT.H_COLD_BAL.value, PT.H_NET_HOT.value, PT.H_NET_COLD.value, PT.H_HOT_UT.value, PT.H_COLD_UT.value,
            PT.H_NET_W_AIR.value, PT.H_NET_HP_PRO.value]
    pt, d = table(h, n, cols, prefix="s")
    ptr, dr = table(h, n, cols, prefix="r")
    g = di._save_graph_data(pt, ptr)
    want = {GraphType.CC.value: (dr, [PT.H_HOT.value, PT.H_COLD.value]), GraphType.SCC.value: (d, [PT.H_HOT.value, PT.H_COLD.value]),
            GraphType.GCC.value: (d, [PT.H_NET.value, PT.H_NET_NP.value, PT.H_NET_A.value, PT.H_NET_UT.value]),
            GraphType.GCC_R.value: (dr, [PT.H_NET.value, PT.H_NET_UT.value]), GraphType.BCC.value: (dr, [PT.H_HOT_BAL.value, PT.H_COLD_BAL.value]),
            GraphType.NLC.value: (d, [PT.H_NET_HOT.value, PT.H_NET_COLD.value, PT.H_HOT_UT.value, PT.H_COLD_UT.value])}
    for gt, (src, cs) in want.items():
        h.check("graph_type_present", gt in g)
        for c in [PT.T.value] + cs:
            for i in range(n):
                h.check("stored_slice_is_the_table_column_to_4dp", abs(g[gt].col[c][i] - src[c][i]) <= 0.00005)


def obligations():
    from . import C17
    shared = []
    for o in C17.obligations():
        if o.name.startswith("C17.clean") and o.tier == "quick":
            shared.append(Obligation(o.name.replace("C17.", "C13."), o.fn, kind=o.kind, functions=o.functions, bound=o.bound, max_paths=o.max_paths, params=o.params,
                                     doc="(shared with C17) " + (o.doc or "emitted points reproduce the non-flat extent of the curve")))
    return shared + [
        Obligation("C13.points", ob_points, kind="proof", functions=[gd._create_curve], expect=("point_is_round_2dp",), doc="POINTS (path-complete for 1..3 pairs)"),
        Obligation("C13.classify", ob_classify, kind="proof", functions=[gd._classify_segment, gd._segment_streamloc, gd._streamloc_colour], doc="SIGN, colour map"),
        Obligation("C13.series", ob_series, kind="proof", functions=[gd._create_graph_set], stubs=("_make_gcc_graph", "_make_composite_graph (recorders)"), max_paths=100000,
                   expect=("utility_flag_goes_with_the_utility_column",), doc="call-site contract: column -> series -> process / utility classification, for every option combination"),
        Obligation("C13.maps.b", ob_maps, kind="bounded", bound="all stream-location forms x {CC, TSP}", functions=[gd._graph_cc, gd._segment_streamloc]),
        Obligation("C13.slices.b", _ob_slices(5), kind="bounded", bound="curves of 2..5 points, enthalpies symbolic", functions=[gd._iter_gcc_segment_slices, gd._segment_bounds],
                   max_paths=400000, expect=("slices_cover_the_whole_non_flat_extent", "every_step_has_the_slice_class")),
        Obligation("C13.one_set_per_record.b", ob_graph_sets, kind="bounded", bound="zone trees with 1..2 records on the root and 0..2 sub-zones; second call in one process",
                   functions=[gd.get_output_graph_data]),
        Obligation("C13.saved_slices.b", ob_save_graph_data, kind="bounded", bound="two-row tables, all cells symbolic", functions=[di._save_graph_data]),
    ]
