"""C14 -- the service is total and well-formed on every valid problem.

What contracts on the code can say here is split in two:

  KERNELS   every obligation of C01..C20 carries the implicit clause `no_exception` (the engine forks on every division by zero, domain
            error, index out of range and attribute that is not set); this file adds the one constructor every input passes through:
            Stream(...) never raises and satisfies its invariant for EVERY tuple of real arguments, including equal temperatures with zero duty
  DISPATCH  get_targets reaches a handler for every zone type the preparation step can produce and refuses the others (exhaustive)
  SERVICE   the composed service is behind pydantic (validation, dumping), which is outside the technique; its totality is checked by the
            `smallscope` back end: the real pinch_analysis_service is run natively on every problem of a scope built from the degenerate shapes the
            property names (single stream, only hot, only cold, isothermal, zero contributions, duplicate names, utilities never needed, nested
            labels) crossed with the boolean options that are wired into the pipeline, and the output contract is evaluated on each result:
            validates against TargetOutput, JSON round-trips, finite numbers only, one direct-integration record per site/process zone,
            reported temperatures inside the envelope of the inputs widened by the contributions, identical when repeated
"""
from __future__ import annotations

import itertools
import json
import math

import OpenPinch.main as main
from OpenPinch.classes.stream import Stream
from OpenPinch.lib.enums import ZoneType
from OpenPinch.lib.schema import TargetOutput
from pvc.engine import Obligation, native, split
from pvc.sym import And, Implies, Not, Or

from .shared import inv_stream_clauses

LEVEL = "exploration"
LEVEL_TEXT = ("Stream construction is proved total over all real arguments (path-complete); handler dispatch is exhaustive; the composed service is "
              "exercised natively over an exhaustively enumerated small scope of degenerate problem shapes x wired options with the output contract "
              "evaluated on every result (bounded; pydantic is outside the technique). Kernel exception-freedom is the implicit no_exception clause of every "
              "other property's obligations.")
ASSUMPTIONS = ["pydantic validates / dumps according to its schema (outside the technique)"]
NOT_COVERED = ["heat-pump, turbine and exergy options (CoolProp / scipy optimisers inside)", "problems beyond the enumerated scope"]


def ob_stream_total(h):
    ts, tt, q = h.real("t_supply"), h.real("t_target"), h.real("heat_flow")
    dt, htc = h.real("dt_cont", lo=0), h.real("htc", lo=0)
    h.assume(q >= 0)                          # schema: duties are magnitudes
    s = Stream("s", ts, tt, dt_cont=dt, heat_flow=q, htc=htc)
    for n, c in inv_stream_clauses(h, s):
        h.check(n, c)
    h.check("finite_heat_capacity_flow", s.CP >= 0)


def ob_handlers(h):
    zt = h.choice("zone_type", [z.value for z in ZoneType] + ["something else"])
    seen = []
    old = dict(main._TARGET_HANDLERS)
    for k in list(main._TARGET_HANDLERS):
        main._TARGET_HANDLERS[k] = (lambda kk: (lambda z: (seen.append(kk), z)[1]))(k)
    try:
        z = type("Z", (), {"identifier": zt})()
        try:
            main.get_targets(z)
            h.check("handled_by_its_own_handler", seen == [zt])
            h.check("only_analysable_zone_types_handled", zt in (ZoneType.R.value, ZoneType.C.value, ZoneType.S.value, ZoneType.P.value, ZoneType.O.value))
        except ValueError:
            h.check("others_refused", zt in (ZoneType.U.value, "something else") and not seen)
    finally:
        main._TARGET_HANDLERS.clear()
        main._TARGET_HANDLERS.update(old)


# ---- small scope ---------------------------------------------------------------------------------------

SHAPES = {
    "single_hot": [("Z", "H1", 200.0, 100.0, 1000.0, 5.0)],
    "single_cold": [("Z", "C1", 50.0, 150.0, 800.0, 5.0)],
    "single_latent": [("Z", "L1", 100.0, 100.0, 1000.0, 5.0)],
    "only_hot": [("Z", "H1", 200.0, 100.0, 1000.0, 5.0), ("Z", "H2", 150.0, 60.0, 900.0, 10.0)],
    "only_cold": [("Z", "C1", 50.0, 150.0, 800.0, 5.0), ("Z", "C2", 20.0, 60.0, 400.0, 0.0)],
    "zero_contribution": [("Z", "H1", 200.0, 100.0, 1000.0, 0.0), ("Z", "C1", 50.0, 180.0, 1300.0, 0.0)],
    "duplicate_names": [("Z", "S", 200.0, 100.0, 1000.0, 5.0), ("Z", "S", 50.0, 180.0, 1300.0, 5.0), ("Z", "S", 150.0, 60.0, 900.0, 5.0)],
    "two_zones": [("A", "H1", 200.0, 100.0, 1000.0, 5.0), ("B", "C1", 50.0, 180.0, 1300.0, 5.0), ("A", "C2", 30.0, 90.0, 300.0, 5.0)],
    "nested_labels": [("A/X", "H1", 200.0, 100.0, 1000.0, 5.0), ("A/Y", "C1", 50.0, 180.0, 1300.0, 5.0), ("B", "H2", 150.0, 60.0, 900.0, 5.0)],
    # decimal temperatures that meet after shifting (32.2 - 5 and 22.2 + 5 are one ulp apart as floats: the grid has to merge them)
    "decimal_temperatures_meeting_after_the_shift": [("Z", "H1", 150.0, 32.2, 1000.0, 5.0), ("Z", "C1", 22.2, 120.0, 1200.0, 5.0)],
    "threshold": [("Z", "H1", 300.0, 200.0, 500.0, 5.0), ("Z", "C1", 20.0, 100.0, 2000.0, 5.0)],
    "zero_duty_isothermal": [("Z", "H1", 200.0, 100.0, 1000.0, 5.0), ("Z", "N1", 120.0, 120.0, 0.0, 5.0), ("Z", "C1", 50.0, 180.0, 1300.0, 5.0)],
    "latent_hot_given_as_negative_duty": [("Z", "L1", 100.0, 100.0, -500.0, 5.0), ("Z", "C1", 20.0, 80.0, 300.0, 5.0)],
    "latent_cold_at_the_hot_end_of_another_stream": [("Z", "H1", 200.0, 100.0, 500.0, 5.0), ("Z", "L1", 100.0, 100.0, 800.0, 5.0)],
    "latent_hot_at_the_cold_end_of_another_stream": [("Z", "C1", 50.0, 150.0, 500.0, 5.0), ("Z", "L1", 150.0, 150.0, -800.0, 5.0)],
    "very_unequal_duties": [("Z", "H1", 200.0, 100.0, 2.0e6, 5.0), ("Z", "C1", 50.0, 80.0, 5.0, 5.0)],
    "balanced": [("Z", "H1", 200.0, 100.0, 1000.0, 0.0), ("Z", "C1", 100.0, 200.0, 1000.0, 0.0)],
}
UTILS = {
    "none": [],
    "needed": [("HP", "Hot", 250.0, 249.0, 5.0), ("CW", "Cold", 15.0, 20.0, 5.0)],
    "never_needed": [("HP", "Hot", 250.0, 249.0, 5.0), ("MP", "Hot", 180.0, 179.0, 5.0), ("CW", "Cold", 15.0, 20.0, 5.0), ("RF", "Cold", -20.0, -19.0, 5.0)],
    "value_with_unit": "vu",
}
OPTIONS = [{}, {"DO_BALANCED_CC": False}, {"DO_VERTICAL_GCC": True, "DO_ASSITED_HT": True}, {"DO_AREA_TARGETING": True}, {"DO_INDIRECT_PROCESS_TARGETING": True}]


def _problem(shape, utils, options):
    wrap = (lambda v, u: {"value": v, "units": u}) if utils == "value_with_unit" else (lambda v, u: v)
    streams = [dict(zone=z, name=n, t_supply=wrap(a, "degC"), t_target=wrap(b, "degC"), heat_flow=wrap(q, "kW"), dt_cont=wrap(dt, "degC"), htc=wrap(1.0, "kW/m^2/degC"))
               for z, n, a, b, q, dt in SHAPES[shape]]
    ul = UTILS["needed"] if utils == "value_with_unit" else UTILS[utils]
    utilities = [dict(name=n, type=t, t_supply=wrap(a, "degC"), t_target=wrap(b, "degC"), dt_cont=wrap(dt, "degC"), price=wrap(10.0, "$/MWh"), htc=wrap(1.0, "kW/m^2/degC"),
                      heat_flow=None) for n, t, a, b, dt in ul]
    return {"streams": streams, "utilities": utilities, "options": dict(options)}


def _numbers(obj):
    if isinstance(obj, bool) or obj is None or isinstance(obj, str):
        return
    if isinstance(obj, (int, float)):
        yield float(obj)
    elif isinstance(obj, dict):
        for v in obj.values():
            yield from _numbers(v)
    elif isinstance(obj, (list, tuple)):
        for v in obj:
            yield from _numbers(v)


def ob_service(h):
    shape = h.choice("shape", list(SHAPES))
    utils = h.choice("utilities", list(UTILS))
    opt = h.choice("options", OPTIONS)
    prob = _problem(shape, utils, opt)
    # recorded finding: indirect process targeting reads direct-integration records that have not been computed yet
    h.exclude_known("KF-C14-indirect-process-option", bool(opt.get("DO_INDIRECT_PROCESS_TARGETING")))
    if opt.get("DO_AREA_TARGETING") and any(dt <= 0 for *_, dt in SHAPES[shape]):
        return        # area targeting is defined for strictly positive contributions only (C15's domain)
    # recorded finding of C03: a latent stream at the end of the temperature range leaves the default utility without duty, so the
    # balanced curves that area targeting needs do not balance
    h.exclude_known("KF-C03-default-glide", bool(opt.get("DO_AREA_TARGETING")) and shape in ("single_latent", "latent_hot_given_as_negative_duty", "latent_cold_at_the_hot_end_of_another_stream",
                                                                                        "latent_hot_at_the_cold_end_of_another_stream") and utils == "none")
    with native():
        out1 = main.pinch_analysis_service(json.loads(json.dumps(prob)), project_name="Site")
        out2 = main.pinch_analysis_service(json.loads(json.dumps(prob)), project_name="Site")
        j1, j2 = out1.model_dump_json(), out2.model_dump_json()
        d = json.loads(j1)
        h.check("validates_against_the_output_schema", isinstance(TargetOutput.model_validate(d), TargetOutput))
        h.check("identical_when_repeated", j1 == j2)
        nums = list(_numbers(d))
        h.check("only_finite_numbers", all(math.isfinite(x) for x in nums) and "NaN" not in j1 and "Infinity" not in j1)
        names = [t["name"] for t in d["targets"]]
        zones = sorted({z.split("/")[0] for z, *_ in SHAPES[shape]})
        want = {"Site/Direct Integration"} | {f"{z}/Direct Integration" for z in zones if z != "Site"}
        h.check("one_direct_integration_record_per_site_and_process_zone", want <= set(names) and all(names.count(n) == 1 for n in want))
        ts = [x for _, _, a, b, _, dt in SHAPES[shape] for x in (a - dt, a + dt, b - dt, b + dt, b + 0.01 + dt, a + 0.01 + dt)]
        ul = UTILS["needed"] if utils == "value_with_unit" else UTILS[utils]
        ts += [x for _, _, a, b, dt in ul for x in (a - dt, a + dt, b - dt, b + dt)]
        lo, hi = min(ts) - 10.2, max(ts) + 10.2          # default utilities sit DT_CONT (5) + DT_PHASE_CHANGE beyond the extreme stream temperatures
        pinches = [v for t in d["targets"] for v in (t.get("temp_pinch") or {}).values() if v is not None]
        pinches = [p["value"] if isinstance(p, dict) else p for p in pinches]
        h.check("pinch_temperatures_inside_the_input_envelope", all(lo <= p <= hi for p in pinches))
        h.check("targets_non_negative", all((_val(t["Qh"]) >= -1e-6 and _val(t["Qc"]) >= -1e-6 and _val(t["Qr"]) >= -1e-6) for t in d["targets"]))


TREES = {
    "root_without_children_entry": {"name": "Plant", "type": "Site"},
    "root_children_null": {"name": "Plant", "type": "Site", "children": None},
    "root_children_empty": {"name": "Plant", "type": "Site", "children": []},
    "flat": {"name": "Plant", "type": "Site", "children": [{"name": "A", "type": "Process Zone"}, {"name": "B", "type": "Process Zone"}]},
    "generic_three_levels": {"name": "Plant", "type": "Zone", "children": [{"name": "A", "type": "Zone", "children": [{"name": "U1", "type": "Zone"}]}, {"name": "B", "type": "Zone"}]},
}
TREE_LABELS = {"root_without_children_entry": ["Plant"], "root_children_null": ["Plant"], "root_children_empty": ["Plant"], "flat": ["A", "B", "Plant"],
               "generic_three_levels": ["A/U1", "U1", "B", "Plant"]}


def ob_zone_tree(h):
    """The optional zone tree of the request: every legal way of writing a tree, streams labelled with zones of that tree."""
    kind = h.choice("zone_tree", list(TREES))
    labels = TREE_LABELS[kind]
    l0 = h.choice("label_of_first_stream", list(range(4)))
    l1 = h.choice("label_of_second_stream", list(range(4)))
    given_as = h.choice("given_as", ["dictionary", "validated_model", "same_model_twice", "same_dictionary_of_validated_records_twice"])
    if l0 >= len(labels) or l1 >= len(labels):
        return
    with native():
        streams = [dict(zone=labels[l0], name="H1", t_supply=200.0, t_target=100.0, heat_flow=1000.0, dt_cont=5.0, htc=1.0),
                   dict(zone=labels[l1], name="C1", t_supply=50.0, t_target=180.0, heat_flow=1300.0, dt_cont=5.0, htc=1.0)]
        prob = {"streams": streams, "utilities": [], "options": {}, "zone_tree": TREES[kind]}
        if given_as == "dictionary":
            mk = lambda: json.loads(json.dumps(prob))
        elif given_as == "validated_model":
            mk = lambda: main.TargetInput.model_validate(json.loads(json.dumps(prob)))
        else:                                       # "is identical when the call is repeated": the very same request object, twice
            m = main.TargetInput.model_validate(json.loads(json.dumps(prob)))
            same = m if given_as == "same_model_twice" else {"streams": list(m.streams), "utilities": list(m.utilities), "options": m.options, "zone_tree": m.zone_tree}
            mk = lambda: same
        out1 = main.pinch_analysis_service(mk(), project_name="Plant")
        out2 = main.pinch_analysis_service(mk(), project_name="Plant")
        j1 = out1.model_dump_json()
        d = json.loads(j1)
        h.check("validates_against_the_output_schema", isinstance(TargetOutput.model_validate(d), TargetOutput))
        h.check("identical_when_repeated", j1 == out2.model_dump_json())
        h.check("only_finite_numbers", all(math.isfinite(x) for x in _numbers(d)) and "NaN" not in j1 and "Infinity" not in j1)
        names = [t["name"] for t in d["targets"] if t["name"].endswith("/Direct Integration")]
        want = {"Plant/Direct Integration"} | {f"{c['name']}/Direct Integration" for c in (TREES[kind].get("children") or [])}
        h.check("one_direct_integration_record_per_site_and_process_zone", want <= set(names) and len(names) == len(set(names)))
        site = [t for t in d["targets"] if t["name"] == "Plant/Direct Integration"][0]
        h.check("site_record_carries_both_streams", abs(_val(site["Qh"]) - _val(site["Qc"]) - 300.0) < 1e-6)


def _val(x):
    return x["value"] if isinstance(x, dict) else x


def obligations():
    fs = [Stream.__init__, Stream._update_attributes]
    obs = [
        Obligation("C14.stream.total", ob_stream_total, functions=fs, expect=("min_le_max",), doc="Stream(...) never raises and establishes its invariant for every real argument tuple"),
        Obligation("C14.handlers.b", ob_handlers, kind="bounded", bound="every ZoneType value and one foreign identifier (exhaustive)", functions=[main.get_targets]),
    ]
    base = Obligation("C14.service.b", ob_service, kind="smallscope", functions=[main.pinch_analysis_service, main.get_targets, main.extract_results], max_paths=100000, time_budget_s=900,
                      bound=f"{len(SHAPES)} degenerate problem shapes x {len(UTILS)} utility sets x {len(OPTIONS)} option sets, real service run natively twice each (exhaustive)",
                      doc="SERVICE output contract")
    obs += split(base, shape=list(SHAPES))
    obs.append(Obligation("C14.zone_tree.b", ob_zone_tree, kind="smallscope", functions=[main.pinch_analysis_service], max_paths=100000, time_budget_s=900,
                          bound=f"{len(TREES)} ways of writing a zone tree (root with no / null / empty children, flat, three generic levels) x stream labels naming zones of the tree x "
                                "request given as dictionary / validated model / the same model or dictionary of validated records twice (exhaustive)",
                          doc="SERVICE output contract with the optional zone tree"))
    return obs
