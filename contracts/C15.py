"""C15 -- area, exchanger-count and capital-cost targets follow their definitions.

  compute_capital_cost             FORMULA    = N (a + b (A/N)^c)               MONOTONE  strictly increasing in A (N, b, c > 0)
  get_capital_cost_targets         ARGS       passes (area, units, FIXED_COST, VARIABLE_COST, COST_EXP) and (capital, DISCOUNT_RATE, SERV_LIFE)
  compute_capital_recovery_factor  ANNUITY    sum_{k=1..n} crf / (1+i)^k = 1  (n = 1..10; induction step proved from the previous identity alone)
  compute_annual_capital_cost      PRODUCT    = capital * crf, increasing in capital
  get_balanced_CC                  POINTWISE  balanced curves are process + utility curves; interval resistance = rCP dT / dH where dH > tol else 0
                                   SPANS      equal enthalpy spans, from C02 (balance) and C03 (closure) -- a linear lemma over those contracts
  compute_LMTD_from_dts            positive for positive end differences (C20.lmtd.between_end_differences)

Not covered: the area target equals an independently computed sum (equivalence of two interpolation algorithms through logarithms),
and get_min_number_hx (a counting heuristic with no definition in the property to check it against).
"""
from __future__ import annotations

from types import SimpleNamespace

import OpenPinch.analysis.capital_cost_and_area_targeting as ca
import OpenPinch.utils.costing as costing
import OpenPinch.analysis.direct_integration_entry as di
from pvc.engine import Obligation
from pvc.npshim import NP as npx
from pvc.sym import And, Implies, Not, Or

from .shared import PT, tol

LEVEL = "proof"
LEVEL_TEXT = ("Cost laws, argument wiring, annuity identity (service life 1..10 y, induction unrolled with generalised premises) and the balanced-curve construction are proved by "
              "path-complete symbolic execution of the real functions over all real arguments (x**y uninterpreted with its monotonicity law); the "
              "balanced-curve obligation is bounded in table length. Area equality with an independent definition is not covered.")
NOT_COVERED = ["area target = independently computed sum of Q R / LMTD", "annuity identity for a general (non-integer or large) service life"]
ASSUMPTIONS = ["x**y (non-integer y) is an uninterpreted function with: positive for positive base, strictly increasing in the base for y > 0"]


def ob_capex_formula(h):
    A, N, a, b, c = h.real("area"), h.real("units"), h.real("fixed"), h.real("variable"), h.real("exponent")
    h.assume(And(A > 0, N > 0))
    cost = costing.compute_capital_cost(A, N, a, b, c)
    h.check("cost_is_N_times_a_plus_b_times_area_per_unit_to_c", h.eq(cost, N * (a + b * (A / N) ** c)))


def ob_capex_monotone(h):
    A1, A2, N, a, b, c = h.real("area1"), h.real("area2"), h.real("units"), h.real("fixed"), h.real("variable"), h.real("exponent")
    h.assume(And(A1 > 0, A2 > A1, N > 0, b > 0, c > 0))
    c1 = costing.compute_capital_cost(A1, N, a, b, c)
    c2 = costing.compute_capital_cost(A2, N, a, b, c)
    h.check("capital_cost_increases_with_area", c1 < c2)
    i, n = h.real("rate"), h.real("life")
    h.assume(And(i > 0, n > 0))
    a1 = costing.compute_annual_capital_cost(c1, i, n)
    a2 = costing.compute_annual_capital_cost(c2, i, n)
    h.check("annual_cost_increases_with_area", a1 < a2)


def ob_capex_args(h):
    seen = {}
    cfg = SimpleNamespace(FIXED_COST=h.real("FIXED_COST"), VARIABLE_COST=h.real("VARIABLE_COST"), COST_EXP=h.real("COST_EXP"),
                          DISCOUNT_RATE=h.real("DISCOUNT_RATE"), SERV_LIFE=h.real("SERV_LIFE"))
    A, N = h.real("area"), h.real("units")
    cap = h.real("capital_out")
    old = (ca.compute_capital_cost, ca.compute_annual_capital_cost)
    ca.compute_capital_cost = lambda *a: (seen.__setitem__("cc", a), cap)[1]
    ca.compute_annual_capital_cost = lambda *a: (seen.__setitem__("ac", a), 7.0)[1]
    try:
        r = ca.get_capital_cost_targets(A, N, cfg)
    finally:
        ca.compute_capital_cost, ca.compute_annual_capital_cost = old
    want_cc = (A, N, cfg.FIXED_COST, cfg.VARIABLE_COST, cfg.COST_EXP)
    want_ac = (cap, cfg.DISCOUNT_RATE, cfg.SERV_LIFE)
    h.check("capital_cost_called_with_area_units_a_b_c", len(seen["cc"]) == 5 and all(x is y for x, y in zip(seen["cc"], want_cc)))
    h.check("annual_cost_called_with_capital_rate_life", len(seen["ac"]) == 3 and all(x is y for x, y in zip(seen["ac"], want_ac)))
    h.check("returns_capital_and_annual", r[0] is cap and r[1] == 7.0)


def ob_crf(h):
    n = h.choice("service_life", list(range(1, 11)))
    i = h.real("rate")
    h.assume(i > 0)
    crf = costing.compute_capital_recovery_factor(i, n)
    q = 1 + i
    # ghost induction over the years: the discounted unit annuity after m years is (1 - q^-m) / i
    S, d = None, None
    for m in range(1, n + 1):
        d_new = q if m == 1 else d * q               # structurally the same term the code builds for (1 + i) ** m
        S_new = 1 / d_new if m == 1 else S + 1 / d_new
        step = h.eq(S_new * i * d_new, d_new - 1)
        if m == 1:
            h.derive("lemma_partial_annuity", step, [i > 0])
            h.derive("lemma_growth_factor_above_one", d_new > 1, [i > 0])
        else:
            # inductive steps from the previous year's facts alone (previous sum and factor generalised)
            h.derive("lemma_partial_annuity", step, [h.eq(S * i * d, d - 1), d > 1, i > 0], opaque=[S, d] if h.symbolic else [])
            h.derive("lemma_growth_factor_above_one", d_new > 1, [d > 1, i > 0], opaque=[d] if h.symbolic else [])
        S, d = S_new, d_new
    h.derive("lemma_crf_closed_form", h.eq(crf * (d - 1), i * d), [d > 1, i > 0], opaque=[d] if h.symbolic else [])
    h.derive("crf_positive", crf > 0, [h.eq(crf * (d - 1), i * d), d > 1, i > 0], opaque=[crf, d] if h.symbolic else [])
    # sum_k crf / q^k = crf * sum_k 1 / q^k  (distributivity), stated in the factored form; derived from the lemmas alone
    facts = [h.eq(S * i * d, d - 1), h.eq(crf * (d - 1), i * d), d > 1, i > 0]
    h.derive("discounted_annuities_sum_to_one", h.eq(crf * S, 1.0), facts, opaque=[S, d, crf] if h.symbolic else [])


def ob_annual(h):
    cap, i, n = h.real("capital"), h.real("rate"), h.real("life")
    h.assume(And(i > 0, n > 0))
    h.stub(costing, "compute_capital_recovery_factor", h.pure_function("crf", 2))
    a = costing.compute_annual_capital_cost(cap, i, n)
    f = h.pure_function("crf", 2)(i, n) if h.symbolic else costing.compute_capital_recovery_factor(i, n)
    h.check("annual_cost_is_capital_times_crf", h.eq(a, cap * f))


def ob_bcc(h):
    n = h.choice("rows", [2, 3])
    mk = (lambda v: npx.array(list(v))) if h.symbolic else (lambda v: __import__("numpy").array(list(v), dtype=float))
    Hh, Hc, Hhu, Hcu = h.reals("Hh", n), h.reals("Hc", n), h.reals("Hhu", n), h.reals("Hcu", n)
    dT = [0.0] + [h.real(f"dT{i}", lo=0) for i in range(1, n)]
    Rh, Rc, Rhu, Rcu = h.reals("rcph", n), h.reals("rcpc", n), h.reals("rcphu", n), h.reals("rcpcu", n)
    with_r = h.choice("with_resistances", [True, False])
    if with_r:
        out = ca.get_balanced_CC(mk(Hh), mk(Hc), mk(Hhu), mk(Hcu), mk(dT), mk(Rh), mk(Rc), mk(Rhu), mk(Rcu))
    else:
        out = ca.get_balanced_CC(mk(Hh), mk(Hc), mk(Hhu), mk(Hcu))
    hb, cb = list(out[PT.H_HOT_BAL.value]), list(out[PT.H_COLD_BAL.value])
    for k in range(n):
        h.check("balanced_hot_is_process_plus_utility", h.eq(hb[k], Hh[k] + Hhu[k]))
        h.check("balanced_cold_is_process_plus_utility", h.eq(cb[k], Hc[k] + Hcu[k]))
    if with_r:
        R1, R2 = list(out[PT.R_HOT_BAL.value]), list(out[PT.R_COLD_BAL.value])
        h.check("top_row_resistance_zero", And(h.eq(R1[0], 0.0), h.eq(R2[0], 0.0)))
        for k in range(1, n):
            dh = hb[k - 1] - hb[k]
            dc = cb[k - 1] - cb[k]
            if dh > tol:
                h.check("hot_interval_resistance_is_rCP_dT_over_dH", h.eq(R1[k] * dh, (Rh[k] + Rhu[k]) * dT[k]))
            else:
                h.check("hot_interval_without_duty_has_zero_resistance", h.eq(R1[k], 0.0))
            if dc > tol:
                h.check("cold_interval_resistance_is_rCP_dT_over_dH", h.eq(R2[k] * dc, (Rc[k] + Rcu[k]) * dT[k]))
            else:
                h.check("cold_interval_without_duty_has_zero_resistance", h.eq(R2[k], 0.0))
    # SPANS (lemma over the contracts of C02 / C03 / C05): spans of process curves = stream duties, spans of utility curves = utility duties
    qh, qc, Qh, Qc, shu, scu = (h.real(x) for x in ("hot_duty", "cold_duty", "Qh", "Qc", "sum_hot_utility", "sum_cold_utility"))
    pre = And(Hh[0] - Hh[n - 1] == qh, Hc[0] - Hc[n - 1] == qc, Hhu[0] - Hhu[n - 1] == shu, Hcu[0] - Hcu[n - 1] == scu,
              shu == Qh, scu == Qc, Qh - Qc == qc - qh)
    h.check("balanced_curves_have_equal_spans", Implies(pre, hb[0] - hb[n - 1] == cb[0] - cb[n - 1]))


def ob_units_crossing(h):
    """_count_crossing / _count_utility_range_container: a process stream counts in a region iff its shifted range shares an interval
    of positive length with it; a utility counts iff it is in use and lies inside the region."""
    T_low, T_high = h.real("T_low"), h.real("T_high")
    h.assume(T_high - T_low > 20 * tol)
    k = h.choice("streams", [1, 2])
    ss, us = [], []
    for i in range(k):
        lo, hi, q = h.real(f"s{i}_t_min_star"), h.real(f"s{i}_t_max_star"), h.real(f"u{i}_duty", lo=0)
        h.assume(hi - lo > 20 * tol)
        for a in (lo, hi):
            for b in (T_low, T_high):                      # TOLSAFE: a bound coincides with a region boundary or is clearly off it
                h.assume(Or(h.eq(a, b), a - b > 10 * tol, b - a > 10 * tol))
        h.assume(Or(h.eq(q, 0.0), q > 10 * tol))
        ss.append(SimpleNamespace(t_min_star=lo, t_max_star=hi))
        us.append(SimpleNamespace(t_min_star=lo, t_max_star=hi, heat_flow=q))
    got = ca._count_crossing(T_low, T_high, ss)
    want = sum((sym_int(And(s.t_max_star > T_low, s.t_min_star < T_high)) for s in ss), 0)
    h.check("stream_counted_iff_it_overlaps_the_region", got == want)
    got_u = ca._count_utility_range_container(T_low, T_high, us)
    want_u = sum((sym_int(And(u.t_min_star >= T_low, u.t_max_star <= T_high, u.heat_flow > 0)) for u in us), 0)
    h.check("utility_counted_iff_used_and_inside_the_region", got_u == want_u)


def sym_int(b):
    from pvc.sym import ite
    return ite(b, 1.0, 0.0) if not isinstance(b, bool) else (1.0 if b else 0.0)


def ob_units_regions(h):
    """get_min_number_hx with the two counters replaced by recorders: the regions are the stretches between consecutive rows where the
    balanced curves meet, with at least one row in between; the result is the sum of the members of every region minus one per region."""
    from pvc.engine import ReplayMismatch
    if not h.symbolic:
        raise ReplayMismatch("modular obligation: the counters are recorders, no native replay")
    n = h.choice("rows", [3, 4])
    Hh, Hc = h.reals("Hh", n), h.reals("Hc", n)
    for i in range(n):
        d = Hc[i] - Hh[i]
        h.assume(Or(h.eq(d, 0.0), d > 10 * tol, -d > 10 * tol))
    T = [400.0 - 50.0 * i for i in range(n)]
    seen = []
    h.stub(ca, "_count_crossing", lambda lo, hi, streams: (seen.append((streams, lo, hi)), 2)[1])
    h.stub(ca, "_count_utility_range_container", lambda lo, hi, utilities: (seen.append((utilities, lo, hi)), 1)[1])
    mk = (lambda v: npx.array(list(v))) if h.symbolic else (lambda v: __import__("numpy").array(list(v), dtype=float))
    got = ca.get_min_number_hx(mk(T), mk(Hh), mk(Hc), "hot", "cold", "hot_ut", "cold_ut")
    meets = [i for i in range(n) if bool(h.eq(Hc[i], Hh[i]))]
    regions = [(a, b) for a, b in zip(meets, meets[1:]) if a + 1 < b]
    h.check("one_count_per_side_and_region", sorted((w, lo, hi) for w, lo, hi in seen) == sorted((w, T[b], T[a]) for a, b in regions for w in ("hot", "cold", "hot_ut", "cold_ut")))
    h.check("units_is_members_minus_one_per_region", got == len(regions) * (2 + 2 + 1 + 1) - len(regions))


AREA_PROBLEMS = {
    "four_streams_two_pinch_regions": [("H1", 250.0, 40.0, 3150.0, 0.5), ("H2", 200.0, 80.0, 3000.0, 2.0), ("C1", 20.0, 180.0, 3200.0, 1.0), ("C2", 140.0, 230.0, 2700.0, 0.2)],
    "two_streams": [("H1", 250.0, 120.0, 1300.0, 1.0), ("C1", 40.0, 200.0, 1600.0, 0.5)],
    "threshold_hot_only_utility": [("H1", 150.0, 60.0, 900.0, 1.0), ("C1", 20.0, 120.0, 2000.0, 1.0)],
}
COSTS = dict(FIXED_COST=4000.0, VARIABLE_COST=700.0, COST_EXP=0.8, DISCOUNT_RATE=0.1, SERV_LIFE=6)


def ob_area_pipeline(h):
    """PIPELINE (call-site contract of compute_direct_integration_targets, evaluated on the records it produces): whenever area targeting is switched
    on, every record that carries an area target has a finite positive area, at least one unit, the capital cost N(a + b(A/N)^c) of exactly those
    two numbers and the annuity of that cost -- for EVERY setting of the reporting options (DO_BALANCED_CC only decides whether balanced curves are
    reported; the targets may not depend on it)."""
    import math
    import OpenPinch.main as main
    from pvc.engine import native
    prob = h.choice("problem", list(AREA_PROBLEMS))
    with native():
        seen = {}
        for bal in (True, False):
            req = {"streams": [dict(zone="Z", name=n, t_supply=a, t_target=b, heat_flow=q, dt_cont=5.0, htc=k) for n, a, b, q, k in AREA_PROBLEMS[prob]],
                   "utilities": [], "options": dict(COSTS, DO_AREA_TARGETING=True, DO_BALANCED_CC=bal)}
            _, mz = main.pinch_analysis_service(req, is_return_full_results=True)
            stack, recs = [mz], []
            while stack:
                z = stack.pop()
                stack.extend(z.subzones.values())
                recs += [(z.name, k, t) for k, t in z.targets.items() if hasattr(t, "Area target")]
            h.check("area_targets_are_produced_when_switched_on", len(recs) >= 1, note=f"DO_BALANCED_CC={bal}")
            for zn, k, t in recs:
                A, N = float(getattr(t, "Area target")), float(getattr(t, "Units target"))
                cap, ann = float(getattr(t, "Capital cost target")), float(getattr(t, "Annualised capital cost target"))
                h.check("area_finite_and_positive", math.isfinite(A) and A > 0, note=f"{k} DO_BALANCED_CC={bal}: {A}")
                h.check("at_least_one_unit", math.isfinite(N) and N >= 1 and N == int(N), note=f"{k} DO_BALANCED_CC={bal}: {N}")
                if N >= 1 and A > 0:
                    ref = N * (COSTS["FIXED_COST"] + COSTS["VARIABLE_COST"] * (A / N) ** COSTS["COST_EXP"])
                    h.check("capital_cost_is_the_formula_of_the_reported_area_and_units", math.isfinite(cap) and abs(cap - ref) <= 1e-9 * ref, note=f"{k}: {cap} vs {ref}")
                    i, n = COSTS["DISCOUNT_RATE"], COSTS["SERV_LIFE"]
                    h.check("annualised_cost_is_the_annuity_of_the_capital_cost", abs(sum((ann / cap) / (1 + i) ** y for y in range(1, n + 1)) - 1.0) < 1e-9)
                seen.setdefault((zn, k), []).append((A, N, cap))
        for key, vals in seen.items():
            h.check("targets_do_not_depend_on_the_reporting_option", len(vals) == 2 and vals[0][1] == vals[1][1] and abs(vals[0][0] - vals[1][0]) <= 1e-9 * max(1.0, vals[0][0])
                    and abs(vals[0][2] - vals[1][2]) <= 1e-9 * max(1.0, vals[0][2]), note=f"{key}: {vals}")


def _deps(module, names, prefix, why):
    """callee contracts this property's clauses are stated against, discharged here as well (same harness objects, other names)"""
    out = []
    for o in module.obligations():
        base = o.name.split("[")[0]
        if base in names and o.tier == "quick":
            out.append(Obligation(o.name.replace(base.split(".")[0] + ".", prefix, 1), o.fn, kind=o.kind, functions=o.functions, bound=o.bound, max_paths=o.max_paths, params=o.params,
                                  timeout_ms=o.timeout_ms, expect=o.expect, stubs=o.stubs, runner=o.runner, time_budget_s=o.time_budget_s,
                                  doc=f"(callee contract, shared with {base.split('.')[0]}: {why}) " + (o.doc or "")))
    return out


def _own_obligations():
    return [
        Obligation("C15.capex.formula", ob_capex_formula, functions=[costing.compute_capital_cost]),
        Obligation("C15.capex.monotone", ob_capex_monotone, functions=[costing.compute_capital_cost, costing.compute_annual_capital_cost], timeout_ms=30000),
        Obligation("C15.capex.args", ob_capex_args, functions=[ca.get_capital_cost_targets], stubs=("compute_capital_cost", "compute_annual_capital_cost")),
        Obligation("C15.crf.annuity.b", ob_crf, kind="bounded", bound="service life 1..10 years (integer), any positive rate", functions=[costing.compute_capital_recovery_factor], timeout_ms=8000, time_budget_s=150),
        Obligation("C15.annual", ob_annual, functions=[costing.compute_annual_capital_cost], stubs=("compute_capital_recovery_factor (pure function)",)),
        Obligation("C15.units.crossing.b", ob_units_crossing, kind="bounded", bound="1..2 streams / utilities against one region, all temperatures symbolic (TOLSAFE)",
                   functions=[ca._count_crossing, ca._count_utility_range_container], expect=("stream_counted_iff_it_overlaps_the_region",),
                   doc="UNITS: membership of a stream / utility in a region between two pinches"),
        Obligation("C15.units.regions.b", ob_units_regions, kind="bounded", bound="balanced curves of 3..4 rows, all cells symbolic", functions=[ca.get_min_number_hx],
                   stubs=("_count_crossing", "_count_utility_range_container (recorders; their contracts are C15.units.crossing.b)"),
                   doc="UNITS: regions between consecutive meeting points; sum of members minus one per region"),
        Obligation("C15.pipeline.b", ob_area_pipeline, kind="smallscope", bound=f"{len(AREA_PROBLEMS)} problems x balanced-curve reporting on / off, real service run natively (exhaustive)",
                   functions=[di.compute_direct_integration_targets, ca.get_area_targets, ca.get_min_number_hx, ca.get_capital_cost_targets], max_paths=1000,
                   doc="PIPELINE: area, units and cost records of the real service obey the cost definitions for every reporting option"),
        Obligation("C15.bcc.b", ob_bcc, kind="bounded", bound="tables of 2..3 rows, all cells symbolic", functions=[ca.get_balanced_CC], max_paths=100000),
    ]


def obligations():
    from . import C20
    # the area target divides by the log-mean temperature difference: the helper's contracts (C20) are discharged here too
    return _own_obligations() + _deps(C20, ("C20.lmtd.between_end_differences", "C20.lmtd.upper", "C20.lmtd.symmetric", "C20.lmtd.equal_branch", "C20.lmtd.refuses_nonpositive",
                                            "C20.lmtd.from_ts"), "C15.dep.", "log-mean temperature difference used by the area target")
