"""C16 -- all input channels describe the same problem identically.

  get_value                    UNWRAP    a float, {"value": x, ...} and ValueWithUnit(value=x) all give x; anything else raises TypeError
  PinchProblem.load            DISPATCH  a validated model / (streams, utilities) pair / *.json / workbook suffix / directory reaches exactly
                                         its own reader and stores what that reader returned; anything else is refused
  PinchProblem.target          WRAPPER   passes the stored problem object itself to pinch_analysis_service; CACHE: the service is called at
                                         most once and the same result object is returned on every later call
  PinchProblem.from_json       stores the dictionary it is given (no copy, no transformation)
  _unique_sheet_name/_sanitize_sheet_name   SHEETS  for any history of requested names: result <= 31 characters, free of : \\ / ? * [ ],
                                         not handed out before, recorded as used
  CSV channel                  the CSV bundle of a small problem gives the same targets as the dictionary it was written from (concrete
                                         smoke obligation over the installed pandas: the only statement within reach about the readers)

Not covered: equivalence of the workbook and JSON-file channels with the dictionary channel (openpyxl / pyxlsb / json parsers).
"""
from __future__ import annotations

import itertools
import json
import os
import shutil
import tempfile
from pathlib import Path

import OpenPinch.classes.pinch_problem as pp
import OpenPinch.utils.export as ex
import OpenPinch.utils.miscellaneous as misc
from OpenPinch.lib.schema import ValueWithUnit
from pvc.engine import Obligation, native
from pvc.sym import And, Implies, Not, Or

LEVEL = "exploration"
LEVEL_TEXT = ("get_value, the wrapper's cache and the channel dispatch are path-complete (every argument kind); sheet naming is an exhaustive "
              "enumeration of call histories over a pool of adversarial names (clashes after truncation, forbidden characters, empty names); the CSV "
              "channel is one concrete equivalence run against the installed pandas. File-format parsers are outside the technique.")
NOT_COVERED = ["workbook (.xlsx/.xlsb) and JSON-file channels vs dictionary channel: behaviour of openpyxl / pyxlsb / json"]
FORBIDDEN = set(":\\/?*[]")


def ob_get_value(h):
    kind = h.choice("argument", ["float", "dict", "ValueWithUnit", "int", "str", "None", "list"])
    x = h.real("x")
    if kind == "float":
        h.check("float_passes_through", h.eq(misc.get_value(x), x))
    elif kind == "dict":
        h.check("dict_gives_its_value", h.eq(misc.get_value({"value": x, "units": "kW"}), x))
    elif kind == "ValueWithUnit":
        v = ValueWithUnit.model_construct(value=x, units="kW")
        h.check("value_with_unit_gives_its_value", h.eq(misc.get_value(v), x))
    else:
        arg = {"int": 3, "str": "3.0", "None": None, "list": [1.0]}[kind]
        try:
            misc.get_value(arg)
            h.check("other_types_refused", False)
        except TypeError:
            h.check("other_types_refused", True)


def ob_wrapper(h):
    calls = []
    result, zone = object(), object()

    def fake_service(data, project_name=None, is_return_full_results=False):
        calls.append((data, project_name, is_return_full_results))
        return result, zone
    old = pp.pinch_analysis_service
    pp.pinch_analysis_service = fake_service
    try:
        how = h.choice("loaded_through", ["from_json", "load_model", "attribute"])
        problem = {"streams": [], "utilities": []}
        if how == "from_json":
            p = pp.PinchProblem.from_json(problem)
        elif how == "load_model":
            problem = pp.TargetInput.model_construct(streams=[], utilities=[])
            p = pp.PinchProblem(run=False)
            p.load(problem)
        else:
            p = pp.PinchProblem(run=False)
            p._problem_data = problem
        h.check("stores_the_object_it_was_given", p.problem_data is problem and p.to_problem_json() is problem)
        n = h.choice("target_calls", [1, 2, 3])
        outs = [p.target() for _ in range(n)]
        h.check("service_called_exactly_once", len(calls) == 1)
        h.check("service_receives_the_stored_problem_itself", calls[0][0] is problem and calls[0][2] is True)
        h.check("every_call_returns_the_cached_result", all(o is result for o in outs) and p.results is result and p.master_zone is zone)
        q = pp.PinchProblem(run=False)
        try:
            q.target()
            h.check("target_without_problem_refused", False)
        except RuntimeError:
            h.check("target_without_problem_refused", True)
    finally:
        pp.pinch_analysis_service = old


def ob_history(h):
    """Ghost state `current` = the problem most recently loaded.  target() answers for `current`; the service is called at most once per
    load; a result handed out earlier is never altered."""
    tmp = Path(tempfile.mkdtemp(prefix="pvc_c16h_"))
    calls = []

    def tag(data):
        return data["marker"] if isinstance(data, dict) else ("model", id(data))

    names = []

    def fake_service(data, project_name=None, is_return_full_results=False):
        calls.append(tag(data))
        names.append(project_name)
        return ("result for", tag(data)), ("zone for", tag(data))
    old = pp.pinch_analysis_service
    pp.pinch_analysis_service = fake_service
    try:
        sources = {}
        for k in "AB":
            f = tmp / f"{k}.json"
            f.write_text(json.dumps({"streams": [], "utilities": [], "marker": k}))
            sources[k] = f
        models = {k: pp.TargetInput.model_construct(streams=[], utilities=[]) for k in "AB"}
        p = pp.PinchProblem(run=False)
        current, calls_at_load = None, 0
        for i in range(4):
            op = h.choice(f"op{i}", ["load A", "load B", "load model A", "load model B", "target", "stop"])
            if op == "stop":
                break
            if op.startswith("load model"):
                p.load(models[op[-1]])
                current, calls_at_load = ("model", id(models[op[-1]])), len(calls)
            elif op.startswith("load"):
                p.load(sources[op[-1]])
                current, calls_at_load = op[-1], len(calls)
            elif current is None:
                try:
                    p.target()
                    h.check("target_without_problem_refused", False)
                except RuntimeError:
                    h.check("target_without_problem_refused", True)
            else:
                out = p.target()
                h.check("target_answers_for_the_problem_loaded_last", out == ("result for", current) and p.results == out and p.master_zone == ("zone for", current))
                h.check("service_called_at_most_once_per_load", len(calls) - calls_at_load <= 1 and (len(calls) == calls_at_load or calls[-1] == current))
                # the site name is part of the result (record and graph names): it comes from the source loaded LAST -- the stem of a file,
                # the default name for a model -- never from a source loaded earlier
                want_name = current if isinstance(current, str) else pp.PinchProblem._project_name
                if len(calls) > calls_at_load:
                    h.check("project_name_is_that_of_the_source_loaded_last", names[-1] == want_name)
    finally:
        pp.pinch_analysis_service = old
        shutil.rmtree(tmp, ignore_errors=True)


def ob_dispatch(h):
    kind = h.choice("source", ["json", "xlsx", "xls", "xlsb", "xlsm", "dir", "dir_missing", "tuple", "other"])
    tmp = Path(tempfile.mkdtemp(prefix="pvc_c16_"))
    seen = []
    old = (pp.get_problem_from_excel, pp.get_problem_from_csv)
    pp.get_problem_from_excel = lambda path, output_json=None: (seen.append(("excel", path)), {"from": "excel"})[1]
    pp.get_problem_from_csv = lambda s, u, output_json=None: (seen.append(("csv", s, u)), {"from": "csv"})[1]
    try:
        p = pp.PinchProblem(run=False)
        if kind == "json":
            f = tmp / "prob.json"
            f.write_text('{"streams": [], "utilities": [], "marker": 7}')
            out = p.load(f)
            h.check("json_file_parsed_and_stored", out == {"streams": [], "utilities": [], "marker": 7} and p.problem_data is out and not seen)
        elif kind in ("xlsx", "xls", "xlsb", "xlsm"):
            f = tmp / f"book.{kind.upper() if kind == 'xlsx' else kind}"
            f.write_text("")
            out = p.load(f)
            h.check("workbook_reaches_the_excel_reader_only", out == {"from": "excel"} and seen == [("excel", f)] and p.problem_data is out)
        elif kind == "dir":
            (tmp / "streams.csv").write_text("")
            (tmp / "utilities.csv").write_text("")
            out = p.load(tmp)
            h.check("directory_reaches_the_csv_reader_only", out == {"from": "csv"} and seen == [("csv", tmp / "streams.csv", tmp / "utilities.csv")])
        elif kind == "dir_missing":
            (tmp / "streams.csv").write_text("")
            try:
                p.load(tmp)
                h.check("incomplete_bundle_refused", False)
            except FileNotFoundError:
                h.check("incomplete_bundle_refused", not seen)
        elif kind == "tuple":
            out = p.load((str(tmp / "a.csv"), str(tmp / "b.csv")))
            h.check("pair_reaches_the_csv_reader_only", out == {"from": "csv"} and seen == [("csv", tmp / "a.csv", tmp / "b.csv")])
        else:
            f = tmp / "problem.txt"
            f.write_text("x")
            try:
                p.load(f)
                h.check("unknown_source_refused", False)
            except ValueError:
                h.check("unknown_source_refused", not seen)
    finally:
        pp.get_problem_from_excel, pp.get_problem_from_csv = old
        shutil.rmtree(tmp, ignore_errors=True)


NAME_POOL = ["Site - DI", "A" * 40, "A" * 31, "A" * 30 + "B", "A" * 29 + ":B", "Z/1: [x]*?", "", "'", "   ", "Z\\1", "A" * 28 + " (2)", "A" * 40]


def _ob_sheets(k):
    def ob(h):
        used = set()
        handed = []
        for step in range(k):
            base = h.choice(f"name{step}", NAME_POOL)
            before = set(used)
            got = ex._unique_sheet_name(base, used)
            h.check("at_most_31_characters", len(got) <= 31)
            h.check("non_empty", len(got) > 0)
            h.check("free_of_forbidden_characters", not (set(got) & FORBIDDEN))
            h.check("not_handed_out_before", got not in before and got not in handed)
            h.check("recorded_as_used", got in used and used == before | {got})
            handed.append(got)
    return ob


def ob_sheets_many(h):
    """Fifteen requests whose first 31 characters coincide (two-digit disambiguation suffixes)."""
    base = h.choice("base", ["A" * 40, "Kraft Pulp Mill - Recovery Boiler Line 1 - Direct Integration (Shifted)", "B" * 31, "C" * 29 + ":x"])
    used, handed = set(), []
    for step in range(15):
        got = ex._unique_sheet_name(base if step % 2 == 0 else base + " (Real)", used)
        h.check("at_most_31_characters", len(got) <= 31)
        h.check("free_of_forbidden_characters", not (set(got) & FORBIDDEN))
        h.check("not_handed_out_before", got not in handed)
        handed.append(got)
    h.check("all_recorded", used == set(handed))


def ob_csv_channel(h):
    """One concrete problem: dictionary channel vs CSV bundle written from it (installed pandas)."""
    from OpenPinch.main import pinch_analysis_service
    streams = [("Z", "H1", 200.0, 100.0, 1000.0, 5.0, 1.0), ("Z", "H2", 150.0, 60.0, 900.0, 5.0, 1.0), ("Z", "C1", 50.0, 180.0, 1300.0, 5.0, 1.0)]
    utilities = [("HP", "Hot", 250.0, 249.0, 5.0, 10.0, 1.0, 0.0), ("CW", "Cold", 20.0, 25.0, 5.0, 1.0, 1.0, 0.0)]
    d = {"streams": [dict(zone=z, name=n, t_supply={"value": a, "units": "degC"}, t_target={"value": b, "units": "degC"}, heat_flow={"value": q, "units": "kW"},
                          dt_cont={"value": dt, "units": "degC"}, htc={"value": u, "units": "kW/m^2/degC"}) for z, n, a, b, q, dt, u in streams],
         "utilities": [dict(name=n, type=t, t_supply={"value": a, "units": "degC"}, t_target={"value": b, "units": "degC"}, dt_cont={"value": dt, "units": "degC"},
                            price={"value": pr, "units": "$/MWh"}, htc={"value": u, "units": "kW/m^2/degC"}, heat_flow={"value": q, "units": "kW"})
                       for n, t, a, b, dt, pr, u, q in utilities], "options": {}}
    tmp = Path(tempfile.mkdtemp(prefix="pvc_c16_"))
    try:
        (tmp / "streams.csv").write_text("zone,name,t_supply,t_target,heat_flow,dt_cont,htc,loc,index\n,,degC,degC,kW,degC,kW/m^2/degC,,\n"
                                         + "".join(f"{z},{n},{a},{b},{q},{dt},{u},,\n" for z, n, a, b, q, dt, u in streams))
        (tmp / "utilities.csv").write_text("name,type,t_supply,t_target,dt_cont,price,htc,heat_flow\n,,degC,degC,degC,$/MWh,kW/m^2/degC,kW\n"
                                           + "".join(f"{n},{t},{a},{b},{dt},{pr},{u},{q}\n" for n, t, a, b, dt, pr, u, q in utilities))
        with native():       # wholly concrete: run on the installed numpy / pandas, not on the shims
            p = pp.PinchProblem(run=False)
            loaded = p.load(tmp)
            r_csv = p.target()
            r_dict = pinch_analysis_service(d, project_name=tmp.name)
            # the same problem through the other channels the wrapper offers: CSV pair, JSON file, validated model, plain numbers
            q = pp.PinchProblem(run=False)
            q.load((tmp / "streams.csv", tmp / "utilities.csv"))
            r_pair = q.target()
            jf = tmp / (tmp.name + ".json")
            jf.write_text(json.dumps(d))
            j = pp.PinchProblem(run=False)
            j.load(jf)
            r_json = j.target()
            m = pp.PinchProblem(run=False)
            m.load(pp.TargetInput.model_validate(json.loads(json.dumps(d))))
            m._project_name = tmp.name
            r_model = m.target()
            plain = json.loads(json.dumps(d))
            for rec in plain["streams"] + plain["utilities"]:
                for k2, v2 in list(rec.items()):
                    if isinstance(v2, dict) and "value" in v2:
                        rec[k2] = v2["value"]
            r_plain = pinch_analysis_service(plain, project_name=tmp.name)
        # (the project / site name differs between channels -- directory name, file stem, "Untitled" -- and is not part of the problem)
        site = lambda r: [t.name.split("/")[0] for t in r.targets if t.name.endswith("/Total Site Target")][0]
        key = lambda r: sorted(("<site>/" + t.name.split("/", 1)[-1] if t.name.split("/")[0] == site(r) else t.name, round(float(_v(t.Qh)), 6), round(float(_v(t.Qc)), 6),
                                round(float(_v(t.Qr)), 6)) for t in r.targets)
        h.check("csv_bundle_and_dictionary_give_the_same_targets", key(r_csv) == key(r_dict))
        h.check("csv_pair_gives_the_same_targets", key(r_pair) == key(r_dict))
        h.check("json_file_gives_the_same_targets", key(r_json) == key(r_dict))
        h.check("validated_model_gives_the_same_targets", key(r_model) == key(r_dict))
        h.check("plain_numbers_give_the_same_targets_as_value_with_unit_objects", key(r_plain) == key(r_dict))
        h.check("csv_bundle_has_every_stream_and_utility", len(loaded["streams"]) == len(streams) and len(loaded["utilities"]) == len(utilities))
    finally:
        shutil.rmtree(tmp, ignore_errors=True)


def _v(x):
    return getattr(x, "value", x)


def _deps(module, names, prefix, why):
    """callee contracts this property's clauses are stated against, discharged here as well (same harness objects, other names)"""
    out = []
    for o in module.obligations():
        base = o.name.split("[")[0]
        if base in names and o.tier == "quick":
            out.append(Obligation(o.name.replace(base.split(".")[0] + ".", prefix, 1), o.fn, kind=o.kind, functions=o.functions, bound=o.bound, max_paths=o.max_paths, params=o.params,
                                  timeout_ms=o.timeout_ms, expect=o.expect, stubs=o.stubs, runner=o.runner, time_budget_s=o.time_budget_s,
                                  doc=f"(callee contract, shared with {base.split('.')[0]}: {why}) " + (o.doc or "")))
    return out


def _own_obligations():
    return [
        Obligation("C16.get_value", ob_get_value, functions=[misc.get_value], doc="UNWRAP, path-complete over the argument kind"),
        Obligation("C16.wrapper.b", ob_wrapper, kind="bounded", bound="three ways of loading x 1..3 target() calls", functions=[pp.PinchProblem.target, pp.PinchProblem.from_json, pp.PinchProblem.load],
                   stubs=("pinch_analysis_service (recorder)",)),
        Obligation("C16.history.b", ob_history, kind="smallscope", bound="every sequence of up to 4 calls from {load file A/B, load model A/B, target} on one wrapper (exhaustive)",
                   functions=[pp.PinchProblem.target, pp.PinchProblem.load], stubs=("pinch_analysis_service (recorder)",), max_paths=100000,
                   doc="HISTORY: target() answers for the problem loaded last; one service call per load"),
        Obligation("C16.dispatch.b", ob_dispatch, kind="bounded", bound="one source of each kind (files created in a temporary directory)", functions=[pp.PinchProblem.load],
                   stubs=("get_problem_from_excel", "get_problem_from_csv")),
        Obligation("C16.sheets.b", _ob_sheets(3), kind="bounded", bound=f"every history of 3 requests over a pool of {len(NAME_POOL)} adversarial names (exhaustive)",
                   functions=[ex._unique_sheet_name, ex._sanitize_sheet_name], max_paths=100000),
        Obligation("C16.sheets.many.b", ob_sheets_many, kind="bounded", bound="15 successive requests sharing their first 31 characters, four base names", functions=[ex._unique_sheet_name]),
        Obligation("C16.csv_channel.b", ob_csv_channel, kind="bounded", bound="one concrete three-stream problem through six channels: dictionary (value-with-unit and plain numbers), CSV directory, CSV pair, JSON file, validated model",
                   functions=[pp.PinchProblem.load], doc="CHANNELS give the same targets (native, installed pandas); the workbook channel is not exercised"),
    ]


def obligations():
    from . import C11
    # "the same targets through the service or through the wrapper, on repeated targeting": relies on the service leaving the problem it
    # is handed unchanged (C11's frame contract), discharged here too
    return _own_obligations() + _deps(C11, ("C11.frame.input",), "C16.dep.", "the service does not modify the problem object the wrapper stores")
