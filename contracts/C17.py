"""C17 -- curve simplification stays within its tolerance.

  clean_composite_curve(_ends)   SUBSEQ   kept points are a subsequence of the original points
                                 ENDS     the first / last kept point is the last point of the leading / first point of the trailing flat run
                                 NEAR     every original point of the non-flat extent lies within (points-2)*tol of the polyline through the kept
                                          points, measured as the code measures it (temperature at the point's enthalpy)
  _rdp                           ENDS, ORDER, DEVIATION (every dropped point within epsilon of the chord of its kept neighbours), no exception
  get_piecewise_data_points      falls back to the RDP result when the refinement raises; raises ValueError only if both fail

Not covered: the one-sided (hot never above / cold never below) refinement -- it is the output of scipy's SLSQP.
"""
from __future__ import annotations

import OpenPinch.utils.miscellaneous as misc
import OpenPinch.utils.stream_linearisation as sl
from pvc.engine import Obligation, split
from pvc.npshim import NP as npx
from pvc.sym import And, Implies, Not, Or

from .shared import tol

LEVEL = "exploration"
LEVEL_TEXT = ("Bounded symbolic execution of the real clean_composite_curve / clean_composite_curve_ends (2..5 points) and _rdp (3..4 points, non-linear "
              "arithmetic with sqrt as an uninterpreted function with s*s = u) with every coordinate symbolic; fall-back chain of get_piecewise_data_points "
              "path-complete with stubs. Complete within the bound; the SLSQP refinement is outside the technique.")
NOT_COVERED = ["one-sided bound on the output of _refine_pw_points_for_heating_or_cooling (scipy SLSQP; reached only with more than ten breakpoints)", "polylines with more than 5 points"]


def _arr(h, vals):
    return npx.array(list(vals)) if h.symbolic else __import__("numpy").array(list(vals), dtype=float)


def _interp_T_at(xs, ys, x):
    """temperature of the polyline (xs = enthalpy, ys = temperature) at enthalpy x, as a list of (condition, value)."""
    out = []
    for i in range(len(xs) - 1):
        a, b = xs[i], xs[i + 1]
        inside = Or(And(a <= x, x <= b), And(b <= x, x <= a))
        out.append((And(inside, a != b), ys[i], ys[i + 1], a, b))
    return out


def _ob_clean(nmax, scale=1.0, nmin=2):
    def ob(h):
        n = h.choice("points", list(range(nmin, nmax + 1)))
        # a composite curve as the tables hold it: temperatures strictly descending, enthalpy non-increasing downwards
        y = h.reals("T", n)
        x = h.reals("H", n)
        # TOLSAFE: a step is zero or at least 0.02 kW (the code's flatness tests are 'within tol' and 'variance < 1e-6'); temperatures
        # at least 1 K apart; enthalpies within +-1000 * scale kW
        for i in range(n):
            h.assume(And(x[i] <= 1000 * scale, x[i] >= -1000 * scale))
        for i in range(n - 1):
            h.assume(y[i] - y[i + 1] >= 1)
            h.assume(x[i] >= x[i + 1])
            # a step is zero or at least 0.02 kW whatever the magnitude of the enthalpies: every flatness test is absolute (tol)
            h.assume(Or(x[i] == x[i + 1], x[i] - x[i + 1] >= 0.02))
            h.assume(And(y[i] <= 1000, y[i + 1] >= -1000))
        h.assume(x[0] - x[n - 1] >= 0.02)                                     # not an entirely flat curve
        yk, xk = misc.clean_composite_curve(_arr(h, y), _arr(h, x))
        yk, xk = list(yk), list(xk)
        m = len(xk)
        h.check("at_least_two_points_kept", m >= 2)
        # SUBSEQ: kept points appear among the originals in order
        j = 0
        pos = []
        for k in range(m):
            while j < n and not (bool(h.eq(yk[k], y[j])) and bool(h.eq(xk[k], x[j]))):
                j += 1
            h.check("kept_points_are_original_points_in_order", j < n)
            if j >= n:
                return
            pos.append(j)
            j += 1
        # ENDS
        lead = 0
        while lead + 1 < n and bool(x[lead + 1] == x[0]):
            lead += 1
        trail = n - 1
        while trail - 1 >= 0 and bool(x[trail - 1] == x[n - 1]):
            trail -= 1
        h.check("first_kept_is_end_of_leading_flat_run", pos[0] == lead)
        h.check("last_kept_is_start_of_trailing_flat_run", pos[-1] == trail)
        # NEAR: every original point of the non-flat extent is within tol of the kept polyline.
        # recorded finding: collinearity is tested against the ORIGINAL neighbours, so the error of consecutive removals adds up
        dropped = [i for i in range(lead, trail + 1) if i not in pos]
        h.exclude_known("KF-C17-clean-drift", any(b - a == 1 for a, b in zip(dropped, dropped[1:])))
        slack = tol
        for i in range(lead, trail + 1):
            if i in pos:
                continue
            a = max(p for p in pos if p < i)
            b = min(p for p in pos if p > i)
            if bool(x[a] == x[b]):
                h.check("dropped_point_on_a_vertical_run_is_between_its_ends", And(x[i] == x[a], y[a] >= y[i], y[i] >= y[b]))
            else:
                t = y[a] + (y[b] - y[a]) * (x[i] - x[a]) / (x[b] - x[a])
                h.check("dropped_point_within_tolerance_of_kept_polyline", And(y[i] - t <= slack, t - y[i] <= slack))
    return ob


def ob_clean_gcc(h):
    """Net (grand composite) curves are not monotone in enthalpy: every genuine turning point must survive the cleaning."""
    n = 5
    y = h.reals("T", n)
    x = h.reals("H", n)
    for i in range(n):
        h.assume(And(x[i] >= 0, x[i] <= 1000000, y[i] <= 1000, y[i] >= -1000))
    for i in range(n - 1):
        h.assume(y[i] - y[i + 1] >= 1)
    h.assume(Or(x[0] - x[1] >= 0.02, x[1] - x[0] >= 0.02))     # non-flat ends: the first and last points are the first and last non-flat points
    h.assume(Or(x[3] - x[4] >= 0.02, x[4] - x[3] >= 0.02))
    for i in (1, 2):                                            # interior steps: zero or at least 0.02 kW, however large the enthalpies are
        h.assume(Or(x[i] - x[i + 1] >= 0.02, x[i + 1] - x[i] >= 0.02, x[i] == x[i + 1]))
    yk, xk = misc.clean_composite_curve(_arr(h, y), _arr(h, x))
    kept = list(zip(list(xk), list(yk)))
    for i in (1, 2, 3):
        turning = Or(And(x[i] - x[i - 1] >= 0.02, x[i] - x[i + 1] >= 0.02), And(x[i - 1] - x[i] >= 0.02, x[i + 1] - x[i] >= 0.02))
        if turning:
            h.check("turning_point_of_the_curve_is_kept", any(bool(h.eq(kx, x[i])) and bool(h.eq(ky, y[i])) for kx, ky in kept))
    h.check("first_point_kept", bool(h.eq(kept[0][0], x[0])) and bool(h.eq(kept[0][1], y[0])))
    h.check("last_point_kept", bool(h.eq(kept[-1][0], x[4])) and bool(h.eq(kept[-1][1], y[4])))


def ob_clean_flat(h):
    """An entirely flat curve (no heat) is reported as empty."""
    n = h.choice("points", [2, 3])
    y = h.reals("T", n)
    c = h.real("H")
    yk, xk = misc.clean_composite_curve_ends(_arr(h, y), _arr(h, [c] * n))
    h.check("flat_curve_is_empty", len(yk) == 0 and len(xk) == 0)


def _ob_rdp(n, xgrid=None):
    def ob(h):
        pts = [((h.real(f"x{i}") if xgrid is None else float(xgrid[i])), h.real(f"y{i}")) for i in range(n)]
        eps = h.real("epsilon")
        h.assume(eps > 0)
        h.assume(Or(pts[0][0] != pts[n - 1][0], pts[0][1] != pts[n - 1][1]))
        curve = npx.array([list(p) for p in pts]) if h.symbolic else __import__("numpy").array([list(p) for p in pts], dtype=float)
        out = sl._rdp(curve, eps)
        kept = [(r[0], r[1]) for r in out]
        m = len(kept)
        h.check("both_end_points_kept", And(h.eq(kept[0][0], pts[0][0]), h.eq(kept[0][1], pts[0][1]), h.eq(kept[m - 1][0], pts[n - 1][0]), h.eq(kept[m - 1][1], pts[n - 1][1])))
        # match kept points to original indices (first <-> 0, last <-> n-1, the others in order in between; repeated points allowed)
        pos = [0]
        j = 1
        for k in range(1, m - 1):
            while j < n - 1 and not (bool(h.eq(kept[k][0], pts[j][0])) and bool(h.eq(kept[k][1], pts[j][1]))):
                j += 1
            h.check("kept_points_in_original_order", j < n - 1)
            if j >= n - 1:
                return
            pos.append(j)
            j += 1
        pos.append(n - 1)
        for i in range(n):
            if i in pos:
                continue
            a = max(p for p in pos if p < i)
            b = min(p for p in pos if p > i)
            (ax, ay), (bx, by), (px, py) = pts[a], pts[b], pts[i]
            cross = (bx - ax) * (py - ay) - (by - ay) * (px - ax)
            len2 = (bx - ax) * (bx - ax) + (by - ay) * (by - ay)
            # |cross| / len <= eps   <=>   cross^2 <= eps^2 len^2      (len > 0 or the chord is degenerate)
            h.check("dropped_point_within_epsilon_of_chord", Or(len2 == 0, cross * cross <= eps * eps * len2))
    return ob


def ob_onesided(h):
    """get_piecewise_data_points on three points: the simplified profile of a hot stream is nowhere more than a tenth of the requested
    deviation ABOVE the original (never more than that below, for a cold stream)."""
    ys = h.reals("y", 3)
    eps = h.real("epsilon")
    hot = h.choice("orientation", ["hot", "cold"]) == "hot"
    h.assume(eps > 0)
    h.assume(Or(ys[0] != ys[2], True))
    xs = (0.0, 10.0, 20.0)
    curve = [[xs[i], ys[i]] for i in range(3)]
    out = sl.get_piecewise_data_points(curve=_arr2(h, curve), is_hot_stream=hot, dt_diff_max=eps)
    m = len(out)
    h.check("both_end_points_kept", And(h.eq(out[0][1], ys[0]), h.eq(out[m - 1][1], ys[2])))
    # recorded finding: the one-sided refinement only runs when the simplification keeps MORE than ten breakpoints; a shorter result is
    # the plain two-sided simplification
    chord_mid = (ys[0] + ys[2]) / 2
    if m < 3:
        cross = 20.0 * (ys[1] - ys[0]) - (ys[2] - ys[0]) * 10.0            # twice the triangle area: |cross| / chord length = distance to the chord
        len2 = 400.0 + (ys[2] - ys[0]) * (ys[2] - ys[0])
        h.check("dropped_point_within_epsilon_of_chord", cross * cross <= eps * eps * len2)
    h.exclude_known("KF-C17-one-sided-skipped", m < 3)
    if m < 3:
        if hot:
            h.check("hot_profile_not_above_original_by_more_than_a_tenth", chord_mid - ys[1] <= eps / 10)
        else:
            h.check("cold_profile_not_below_original_by_more_than_a_tenth", ys[1] - chord_mid <= eps / 10)


def _arr2(h, rows):
    return npx.array([list(r) for r in rows]) if h.symbolic else __import__("numpy").array([list(r) for r in rows], dtype=float)


def ob_fallback(h):
    refine_fails = h.choice("refinement_raises", [True, False])
    rdp_fails = h.choice("rdp_raises", [True, False])
    marker_a, marker_b = object(), object()

    def f_refine(curve, epsilon, is_hot_stream):
        if refine_fails:
            raise RuntimeError("refinement failed")
        return marker_a

    def f_rdp(curve, epsilon):
        if rdp_fails:
            raise RuntimeError("rdp failed")
        return marker_b
    old = (sl._get_piecewise_breakpoints, sl._rdp)
    sl._get_piecewise_breakpoints, sl._rdp = f_refine, f_rdp
    try:
        try:
            r = sl.get_piecewise_data_points([[0.0, 0.0], [1.0, 1.0]], True, 0.1)
            h.check("result_is_refinement_or_rdp_fallback", r is (marker_b if refine_fails else marker_a))
            h.check("raises_only_if_both_fail", not (refine_fails and rdp_fails))
        except ValueError:
            h.check("raises_only_if_both_fail", refine_fails and rdp_fails)
    finally:
        sl._get_piecewise_breakpoints, sl._rdp = old


def ob_whole_curve(h):
    """CALL-SITE contract of get_piecewise_data_points: the simplification (refinement, and the fall-back) is handed the caller's profile point for
    point -- every sample, in the caller's order, vertical steps (equal enthalpy, different temperature) and plateaus included.  "Within the requested
    deviation of the ORIGINAL profile" and "both end points kept" are statements about the caller's points; _rdp's contract (C17.rdp3.b) only speaks
    about the points it is given."""
    n = 4
    xs, ys = h.reals("x", n), h.reals("y", n)
    for i in range(n - 1):
        h.assume(xs[i] <= xs[i + 1])          # enthalpy does not decrease along the profile; equal neighbours are a vertical step
    seen = []

    def f_refine(curve, epsilon, is_hot_stream):
        seen.append(("refine", curve))
        raise RuntimeError("refinement failed")          # forces the fall-back as well, so both call sites are recorded on one path

    def f_rdp(curve, epsilon):
        seen.append(("rdp", curve))
        return curve
    # the recorders stay in place in a replay too (they ARE the observation; the function under contract runs natively on real numpy)
    old = (sl._get_piecewise_breakpoints, sl._rdp)
    sl._get_piecewise_breakpoints, sl._rdp = f_refine, f_rdp
    try:
        sl.get_piecewise_data_points(curve=_arr2(h, [[xs[i], ys[i]] for i in range(n)]), is_hot_stream=True, dt_diff_max=0.5)
    finally:
        sl._get_piecewise_breakpoints, sl._rdp = old
    h.check("both_call_sites_reached", [k for k, _ in seen] == ["refine", "rdp"])
    for k, c in seen:
        h.check("simplification_is_given_every_point_of_the_callers_profile", len(c) == n, note=k)
        if len(c) == n:
            h.check("simplification_is_given_the_callers_points_in_order", And(*[And(h.eq(c[i][0], xs[i]), h.eq(c[i][1], ys[i])) for i in range(n)]), note=k)


def ob_refine_args(h):
    """_get_piecewise_breakpoints hands the caller's orientation and a tenth of the tolerance to the refinement (callees replaced by recorders)."""
    hot = h.choice("is_hot_stream", [True, False])
    n_kept = h.choice("points_kept_by_rdp", [5, 11, 12])
    eps = 0.1
    calls = []
    kept = [[float(i), float(i)] for i in range(n_kept)]
    import numpy as np

    def f_rdp(curve, epsilon):
        return np.array(kept)

    def f_refine(curve, pw_points, eps_lb=0.0, hot_stream=True):
        calls.append((len(pw_points), eps_lb, hot_stream))
        return pw_points, 0.0
    old = (sl._rdp, sl._refine_pw_points_for_heating_or_cooling)
    sl._rdp, sl._refine_pw_points_for_heating_or_cooling = f_rdp, f_refine
    try:
        out = sl._get_piecewise_breakpoints(np.array(kept), eps, hot)
    finally:
        sl._rdp, sl._refine_pw_points_for_heating_or_cooling = old
    if n_kept > 10:
        h.check("refinement_called_once_above_ten_points", len(calls) == 1)
        h.check("refinement_gets_the_callers_orientation", bool(calls) and calls[0][2] is hot)
        h.check("refinement_gets_a_tenth_of_the_tolerance", bool(calls) and abs(calls[0][1] - eps / 10) < 1e-15)
    else:
        h.check("no_refinement_up_to_ten_points", len(calls) == 0)
    h.check("result_has_the_kept_points", len(out) == n_kept)


def ob_retry(h):
    """The retry loop of _get_piecewise_breakpoints (callees replaced by recorders): while the refined profile misses the requested
    deviation, the simplification is repeated with a strictly TIGHTER tolerance, the refinement bound follows it, at most ten rounds
    are made and the result is that of the last round."""
    import numpy as np
    overshoots = h.choice("rounds_that_overshoot", [0, 1, 2, 3, 12])
    hot = h.choice("is_hot_stream", [True, False])
    eps = 0.1
    rdp_eps, refine_eps, outs = [], [], []
    kept = [[float(i), float(i)] for i in range(12)]

    def f_rdp(curve, epsilon):
        rdp_eps.append(epsilon)
        return np.array(kept)

    def f_refine(curve, pw_points, eps_lb=0.0, hot_stream=True):
        refine_eps.append(eps_lb)
        res = np.array(kept) + len(refine_eps)            # a recognisable result per round
        outs.append(res)
        return res, (1.0 if len(refine_eps) <= overshoots else 0.0)
    old = (sl._rdp, sl._refine_pw_points_for_heating_or_cooling)
    sl._rdp, sl._refine_pw_points_for_heating_or_cooling = f_rdp, f_refine
    try:
        out = sl._get_piecewise_breakpoints(np.array(kept), eps, hot)
    finally:
        sl._rdp, sl._refine_pw_points_for_heating_or_cooling = old
    rounds = min(overshoots + 1, 10)
    h.check("one_simplification_and_one_refinement_per_round", len(rdp_eps) == rounds and len(refine_eps) == rounds)
    h.check("first_round_uses_the_requested_tolerance", abs(rdp_eps[0] - eps) < 1e-15)
    h.check("every_retry_simplifies_with_a_tighter_tolerance", all(b < a for a, b in zip(rdp_eps, rdp_eps[1:])))
    h.check("refinement_bound_is_a_tenth_of_the_round_tolerance", all(abs(r - e / 10) < 1e-15 for r, e in zip(refine_eps, rdp_eps)))
    h.check("result_is_that_of_the_last_round", out is outs[-1] or (np.asarray(out) == outs[-1]).all())


def obligations():
    fc = [misc.clean_composite_curve, misc.clean_composite_curve_ends]
    obs = [
        Obligation("C17.clean.b", _ob_clean(4), kind="bounded", bound="composite curves of 2..4 points (temperatures >= 1 K apart, enthalpy steps 0 or > 10 tol), all symbolic",
                   functions=fc, max_paths=200000, expect=("first_kept_is_end_of_leading_flat_run", "kept_points_are_original_points_in_order")),
        Obligation("C17.clean.large.b", _ob_clean(4, scale=1000.0, nmin=4), kind="bounded", functions=fc, max_paths=200000,
                   bound="4-point curves with enthalpies up to 1e6 kW, every step zero or at least 0.02 kW",
                   doc="end points and interior vertices survive at large enthalpy magnitudes (every flatness test is absolute, not relative)"),
        Obligation("C17.clean.gcc.b", ob_clean_gcc, kind="bounded", functions=fc, max_paths=200000, bound="5-point non-monotone (grand composite) curves, enthalpies up to 1e6 kW, interior steps down to 0.02 kW",
                   doc="turning points (pocket noses) of a net curve survive the cleaning at any enthalpy magnitude"),
        Obligation("C17.clean.flat.b", ob_clean_flat, kind="bounded", bound="2..3 points, constant enthalpy", functions=[misc.clean_composite_curve_ends]),
        Obligation("C17.onesided.b", ob_onesided, kind="bounded", bound="3-point profiles on the abscissae 0, 10, 20; ordinates and deviation symbolic; hot and cold", timeout_ms=30000,
                   functions=[sl.get_piecewise_data_points, sl._get_piecewise_breakpoints, sl._rdp], expect=("both_end_points_kept",),
                   doc="ONE-SIDED bound on the path that skips the refinement (ten or fewer breakpoints)"),
        Obligation("C17.rdp3.b", _ob_rdp(3), kind="bounded", bound="polylines of 3 points, all coordinates and epsilon symbolic", functions=[sl._rdp], timeout_ms=30000,
                   expect=("both_end_points_kept",)),
        Obligation("C17.refine.args", ob_refine_args, kind="proof", functions=[sl._get_piecewise_breakpoints], stubs=("_rdp", "_refine_pw_points_for_heating_or_cooling (recorders)"),
                   doc="call-site contract: the one-sided refinement receives is_hot_stream and epsilon / 10"),
        Obligation("C17.retry", ob_retry, kind="proof", functions=[sl._get_piecewise_breakpoints], stubs=("_rdp", "_refine_pw_points_for_heating_or_cooling (recorders)"),
                   doc="call-site contract of the retry loop: tighter tolerance per round, at most ten rounds, last result returned"),
        Obligation("C17.whole_curve", ob_whole_curve, kind="proof", functions=[sl.get_piecewise_data_points], stubs=("_get_piecewise_breakpoints", "_rdp (recorders; contracts C17.rdp3.b, C17.refine.args)"),
                   expect=("simplification_is_given_every_point_of_the_callers_profile",),
                   doc="CALL-SITE: the simplification is handed the caller's profile point for point (4 points, all coordinates symbolic, vertical steps included)"),
        Obligation("C17.fallback", ob_fallback, kind="proof", functions=[sl.get_piecewise_data_points], stubs=("_get_piecewise_breakpoints", "_rdp")),
    ]
    obs += split(Obligation("C17.clean5.b", _ob_clean(5), kind="bounded", tier="thorough", bound="composite curves of 5 points", functions=fc, max_paths=2000000), points=[5])
    obs.append(Obligation("C17.rdp4.grid.b", _ob_rdp(4, xgrid=(0.0, 10.0, 20.0, 30.0)), kind="bounded", tier="thorough", functions=[sl._rdp], timeout_ms=60000, max_paths=200000,
                          bound="polylines of 4 points with abscissae 0, 10, 20, 30 (enthalpy grid), ordinates and epsilon symbolic",
                          doc="two recursion levels of _rdp; fully symbolic 4-point polylines are degree-4 problems the solvers do not decide reliably (not claimed)"))
    return obs
