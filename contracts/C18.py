"""C18 -- solved heat-pump cycles obey the first and second laws.

The property library (CoolProp's AbstractState) is OUTSIDE: it is replaced by an axiomatised stand-in whose hmass/smass/T/p are
uninterpreted functions of the last update(kind, a, b), except for the inputs themselves (after PT_INPUTS(p, T): p() = p, T() = T;
HmassP_INPUTS(h, p): hmass() = h, p() = p; PSmass_INPUTS(p, s): p() = p, smass() = s; PQ/QT: the given p resp. T).
Assumed thermodynamics (listed as assumptions, NOT proved):
    (T1) isentropic compression to a higher pressure raises the enthalpy:         h(p_out, s_in) >= h_in
    (T2) at fixed pressure the entropy is non-decreasing in the enthalpy:          h1 >= h2  =>  s(h1, p) >= s(h2, p)
    (T3) the refrigerant leaves the evaporator with more enthalpy than it entered:  H0 >= H3
    (T4) the condenser inlet enthalpy exceeds the evaporator inlet enthalpy:        H1 > H3

Proved over those stand-ins, for the REAL SimpleHeatPumpCycle methods:
    FIRST LAW    Q_cond = Q_evap + work, work = m_dot * w_net > 0, COP_h = COP_r + 1
    COMPRESSOR   h_out = h_in + (h_is - h_in) / eta  >= h_is, hence (T1, T2) compression does not decrease the specific entropy
    THROTTLE     without an internal heat exchanger (ihx_gas_dt = 0) H3 = H2
    PRESSURES    states 0 and 3 at the saturation pressure of Te, states 1 and 2 at that of Tc
    STREAMS      emitted condenser / evaporator stream sets carry exactly Q_cond / Q_evap, each stream runs the right way, and the result of
                 a request does not depend on the requests made before it
"""
from __future__ import annotations

import z3
from types import SimpleNamespace

import CoolProp
import OpenPinch.classes.simple_heat_pump as shp
from pvc.engine import Obligation, ReplayMismatch
from pvc.npshim import NP as npx
from pvc.sym import And, Implies, Not, Or, SymReal, lift_real

LEVEL = "proof"
LEVEL_TEXT = ("Path-complete symbolic execution of the real solve / _get_metrics / _compute_compressor_outlet_state / build_stream_collection over all "
              "real state-point values, with CoolProp replaced by uninterpreted property functions; entropy statements hold modulo the three assumed "
              "thermodynamic facts T1-T3. CoolProp itself is outside the technique.")
ASSUMPTIONS = ["CoolProp AbstractState is an axiomatised stand-in (uninterpreted hmass/smass/T/p as functions of the last update)",
               "T1 isentropic compression raises enthalpy; T2 entropy non-decreasing in enthalpy at fixed pressure; T3 H0 >= H3 (assumed thermodynamics)",
               "obligations that use the stand-in have no native replay (a refuted obligation is reported without a failing input)"]
NOT_COVERED = ["saturation relations and entropy inequalities of real refrigerants (properties of CoolProp's equations of state)",
               "_get_optimal_min_evap_T_for_multi_temperature_carnot_hp (scipy optimiser inside)", "trans-critical gas-cooler profile (piecewise linearisation of 51 CoolProp points)"]

_UF = {}


def _uf(name, arity):
    k = (name, arity)
    if k not in _UF:
        _UF[k] = z3.Function(name, *([z3.RealSort()] * (arity + 1)))
    return _UF[k]


class FakeState:
    """Axiomatised AbstractState: properties are uninterpreted functions of the inputs of the last update."""

    def __init__(self):
        self.kind, self.a, self.b = None, None, None

    def update(self, kind, a, b):
        self.kind, self.a, self.b = kind, a, b

    def _f(self, prop):
        return SymReal(_uf(f"{prop}_{self.kind}", 2)(lift_real(self.a), lift_real(self.b)))

    def hmass(self):
        return self.a if self.kind == CoolProp.HmassP_INPUTS else self._f("h")

    def smass(self):
        return self.b if self.kind == CoolProp.PSmass_INPUTS else self._f("s")

    def p(self):
        if self.kind in (CoolProp.PT_INPUTS, CoolProp.PQ_INPUTS, CoolProp.PSmass_INPUTS):
            return self.a
        if self.kind == CoolProp.HmassP_INPUTS:
            return self.b
        return self._f("p")

    def T(self):
        if self.kind in (CoolProp.PT_INPUTS, CoolProp.QT_INPUTS):
            return self.b
        return self._f("T")


class States(dict):
    """Stand-in for CoolProp's StateContainer: cycle_states[i, key]."""

    def __iter__(self):
        return iter(sorted({k[0] for k in self.keys()}))


def _cycle(h):
    if not h.symbolic:
        raise ReplayMismatch("CoolProp is axiomatised: no native replay")
    c = object.__new__(shp.SimpleHeatPumpCycle)
    c._cycle_states = States()
    c._state = FakeState()
    c._solved = False
    c._dtcont = 0.0
    c._dt_diff_max = 0.5
    c._t_crit, c._p_crit, c._d_crit = 1e9, 1e12, 300.0     # sub-critical operation
    return c


def _solve(h, ihx):
    c = _cycle(h)
    Te, Tc = h.real("Te"), h.real("Tc")
    dsh, dsc = h.real("dT_sh", lo=0), h.real("dT_sc", lo=0)
    eta = h.real("eta_comp")
    Q = h.real("Q_cond")
    h.assume(And(eta > 0, eta <= 1, Q > 0, Tc > Te, Te > -200, Tc < 500))       # inside the two-phase range (sub-critical branch)
    # saturation pressure rises with temperature (needed only for the library's own 'p0 > p2' guard)
    psat = _uf(f"p_{CoolProp.QT_INPUTS}", 2)
    h.assume(SymReal(psat(z3.RealVal(1), lift_real(Te + 273.15))) <= SymReal(psat(z3.RealVal(1), lift_real(Tc + 273.15))))
    from pvc.sym import PathAbort
    try:
        c.solve(Te, Tc, dT_sh=dsh, dT_sc=dsc, eta_comp=eta, refrigerant=None, ihx_gas_dt=ihx, Q_h_total=Q)
    except ZeroDivisionError:
        # only division in solve(): Q_cond / q_cond in _get_metrics; q_cond = H1 - H3 > 0 is assumption T4 (C18.metrics covers _get_metrics)
        raise PathAbort()
    return c, dict(Te=Te, Tc=Tc, Q=Q, eta=eta)


def ob_metrics(h):
    """_get_metrics on arbitrary state-point enthalpies (T3 assumed)."""
    c = _cycle(h)
    H = h.reals("H", 4)
    for i in range(4):
        c._cycle_states[i, "H"] = H[i]
    c._Q_cond = h.real("Q_cond")
    h.assume(And(c._Q_cond > 0, H[1] > H[0], H[0] >= H[3], H[1] > H[3]))      # T1 (work input raises enthalpy), T3
    c._get_metrics()
    c._solved = True
    h.check("first_law_Qcond_is_Qevap_plus_work", h.eq(c._Q_cond, c._Q_evap + c._work))
    h.check("work_is_mass_flow_times_specific_work", h.eq(c._work, c._m_dot * c._w_net))
    h.check("work_positive", c._work > 0)
    h.check("duties_non_negative", And(c._Q_evap >= 0, c._m_dot > 0))
    h.check("heating_cop_is_cooling_cop_plus_one", h.eq(c.COP_h, c.COP_r + 1))


def ob_compressor(h):
    c = _cycle(h)
    c._eta_comp = h.real("eta_comp")
    h_in, s_in, p_out = h.real("h_in"), h.real("s_in"), h.real("p_out")
    h.assume(And(c._eta_comp > 0, c._eta_comp <= 1))
    his = SymReal(_uf(f"h_{CoolProp.PSmass_INPUTS}", 2)(lift_real(p_out), lift_real(s_in)))
    h.assume(his >= h_in)                                                        # T1
    st = c._compute_compressor_outlet_state(h_in, s_in, p_out)
    h_out = st.hmass()
    h.check("outlet_enthalpy_from_isentropic_efficiency", h.eq((h_out - h_in) * c._eta_comp, his - h_in))
    h.check("outlet_not_below_isentropic_outlet", h_out >= his)
    h.check("outlet_at_discharge_pressure", h.eq(st.p(), p_out))
    # T2 instantiated at the two enthalpies in question (same pressure): entropy does not decrease
    s_of = _uf(f"s_{CoolProp.HmassP_INPUTS}", 2)
    s_out, s_is = SymReal(s_of(lift_real(h_out), lift_real(p_out))), SymReal(s_of(lift_real(his), lift_real(p_out)))
    h.assume(Implies(h_out >= his, s_out >= s_is))                               # T2
    h.assume(s_is == s_in)                                                       # the isentropic end state has the inlet entropy (definition)
    h.check("compression_does_not_decrease_entropy", st.smass() >= s_in)


def ob_cycle(h):
    c, v = _solve(h, 0.0)
    H = [c._cycle_states[i, "H"] for i in range(4)]
    P = [c._cycle_states[i, CoolProp.iP] for i in range(4)]
    psat = _uf(f"p_{CoolProp.QT_INPUTS}", 2)
    p_e = SymReal(psat(z3.RealVal(1), lift_real(v["Te"] + 273.15)))
    p_c = SymReal(psat(z3.RealVal(1), lift_real(v["Tc"] + 273.15)))
    h.check("throttling_conserves_enthalpy", h.eq(H[3], H[2]))
    h.check("evaporator_side_at_saturation_pressure_of_Te", And(h.eq(P[0], p_e), h.eq(P[3], p_e)))
    h.check("condenser_side_at_saturation_pressure_of_Tc", And(h.eq(P[1], p_c), h.eq(P[2], p_c)))
    h.check("first_law", h.eq(c._Q_cond, c._Q_evap + c._work))
    h.check("condenser_duty_is_the_requested_duty", h.eq(c._Q_cond, v["Q"]))


def ob_streams(h):
    """Stream sets: duties, direction, independence of the order of requests (profiles are the cycle's own state points)."""
    c = _cycle(h)
    order = h.choice("request_order", ["evap_first", "cond_first", "both_at_once"])
    H = h.reals("H", 4)
    hv, hl, he = h.real("h_sat_vapour_cond"), h.real("h_sat_liquid_cond"), h.real("h_sat_vapour_evap")
    T = h.reals("T", 4)
    h.assume(And(H[1] > hv, hv > hl, hl > H[2], H[0] > he, he > H[3], H[0] >= H[3], H[1] > H[0]))
    h.assume(And(T[1] > T[2] + 1, T[0] > T[3] + 1))
    for i in range(4):
        c._cycle_states[i, "H"] = H[i]
    c._Q_cond = h.real("Q_cond")
    h.assume(c._Q_cond > 0)
    c._get_metrics()
    c._solved = True
    Tsat_c, Tsat_e = h.real("T_sat_cond"), h.real("T_sat_evap")
    h.assume(And(T[1] > Tsat_c + 1, Tsat_c > T[2] + 1, T[0] > Tsat_e + 1, Tsat_e > T[3] + 1))
    cond = npx.array([[H[1], T[1]], [hv, Tsat_c], [hl, Tsat_c], [H[2], T[2]]])
    evap = npx.array([[H[3], T[3]], [he, Tsat_e], [H[0], T[0]]])
    h.stub(shp.SimpleHeatPumpCycle, "_build_condenser_profile", lambda self: cond.copy())
    h.stub(shp.SimpleHeatPumpCycle, "_build_evaporator_profile", lambda self: evap.copy())
    if order == "evap_first":
        ev = list(c.build_stream_collection(include_evap=True)._streams.values())
        co = list(c.build_stream_collection(include_cond=True)._streams.values())
    elif order == "cond_first":
        co = list(c.build_stream_collection(include_cond=True)._streams.values())
        ev = list(c.build_stream_collection(include_evap=True)._streams.values())
    else:
        both = list(c.build_stream_collection(include_cond=True, include_evap=True)._streams.values())
        co, ev = [s for s in both if s.name.startswith("Cond")], [s for s in both if s.name.startswith("Evap")]
    h.check("condenser_streams_carry_Q_cond", h.eq(sum([s.heat_flow for s in co], 0.0), c._Q_cond))
    h.check("evaporator_streams_carry_Q_evap", h.eq(sum([s.heat_flow for s in ev], 0.0), c._Q_evap))
    for s in co:
        h.check("condenser_streams_cool", s.t_supply > s.t_target)
    for s in ev:
        h.check("evaporator_streams_heat", s.t_supply < s.t_target)
    h.check("all_duties_positive", And(*[s.heat_flow > 0 for s in co + ev]))


def ob_condenser_profile(h):
    """_build_condenser_profile (sub-critical): a polyline from the compressor discharge to the condenser outlet whose enthalpy never
    rises -- also when the discharge lies inside the two-phase dome (dry fluids), where the saturated-vapour point must be skipped."""
    c = _cycle(h)
    H, T = h.reals("H", 4), h.reals("T", 4)
    for i in range(4):
        c._cycle_states[i, "H"] = H[i]
        c._cycle_states[i, CoolProp.iT] = T[i]
        c._cycle_states[i, CoolProp.iP] = h.real(f"P{i}", lo=1.0, hi=1e8)     # sub-critical (the stand-in's critical pressure is 1e12)
    c._solved = True
    hv = SymReal(_uf(f"h_{CoolProp.PQ_INPUTS}", 2)(lift_real(c._cycle_states[1, CoolProp.iP]), z3.RealVal(1)))
    hl = SymReal(_uf(f"h_{CoolProp.PQ_INPUTS}", 2)(lift_real(c._cycle_states[1, CoolProp.iP]), z3.RealVal(0)))
    # thermodynamics assumed of the stand-in: saturated liquid below saturated vapour and below the discharge; outlet not above saturated liquid
    h.assume(And(hl < hv, hl < H[1], H[2] <= hl))
    prof = c._build_condenser_profile()
    hs = [prof[i, 0] for i in range(prof.shape[0])]
    h.check("starts_at_compressor_discharge", h.eq(hs[0], H[1]))
    h.check("ends_at_condenser_outlet", h.eq(hs[-1], H[2]))
    for a, b in zip(hs, hs[1:]):
        h.check("enthalpy_never_rises_along_the_condenser", a >= b)
    h.check("profile_spans_exactly_the_condenser_enthalpy_drop", h.eq(sum([a - b for a, b in zip(hs, hs[1:])], 0.0), H[1] - H[2]))


def ob_fluid_state(h):
    """After solve(refrigerant=r) the cycle has been computed with r's property state, whatever happened to the object before."""
    made = []

    class Tagged(FakeState):
        def __init__(self, fluid):
            super().__init__()
            self.fluid = fluid

        def keyed_output(self, k):
            return 1e12 if k == CoolProp.iP_critical else (1e9 if k == CoolProp.iT_critical else 300.0)

    def fake_pfs(x):
        if isinstance(x, Tagged):
            return x
        t = Tagged(x)
        made.append(t)
        return t
    if not h.symbolic:
        raise ReplayMismatch("CoolProp is axiomatised: no native replay")
    h.stub(shp, "process_fluid_state", fake_pfs)
    c = shp.SimpleHeatPumpCycle.__new__(shp.SimpleHeatPumpCycle)
    c._cycle_states = States()
    c._state = None
    c._solved = False
    c._refrigerant = None
    c._dtcont, c._dt_diff_max = 0.0, 0.5
    psat = _uf(f"p_{CoolProp.QT_INPUTS}", 2)
    h.assume(SymReal(psat(z3.RealVal(1), z3.RealVal("293.15"))) <= SymReal(psat(z3.RealVal(1), z3.RealVal("353.15"))))
    last = None
    for step in range(3):
        op = h.choice(f"op{step}", ["solve_A", "solve_B", "set_state_B", "set_state_A"])
        if op.startswith("solve"):
            fluid = op[-1]
            from pvc.sym import PathAbort
            try:
                c.solve(20.0, 80.0, refrigerant=fluid, ihx_gas_dt=0.0, Q_h_total=1000.0)
            except ZeroDivisionError:
                raise PathAbort()
            h.check("cycle_solved_with_the_requested_fluid", getattr(c._state, "fluid", None) == fluid)
            h.check("reports_the_requested_fluid", c.refrigerant == fluid)
        else:
            c.state = op[-1]
            h.check("setting_the_state_invalidates_the_solution", c._solved is False)


def ob_native(h):
    """The same clauses on the REAL property library for a few concrete cycles (smoke obligation; bounded)."""
    from pvc.engine import native
    fluid, Te, Tc, dsh, dsc, eta = h.choice("cycle", [("ammonia", 20.0, 80.0, 0.0, 0.0, 0.7), ("water", 60.0, 120.0, 5.0, 3.0, 0.8), ("ammonia", 20.0, 23.0, 0.0, 0.0, 0.7),
                                                      ("R134a", 0.0, 40.0, 5.0, 5.0, 1.0), ("propane", -10.0, 50.0, 0.0, 0.0, 0.6)])
    first = h.choice("first_request", ["evaporator", "condenser"])
    with native():
        c = shp.SimpleHeatPumpCycle()
        c.solve(Te, Tc, dT_sh=dsh, dT_sc=dsc, eta_comp=eta, refrigerant=fluid, ihx_gas_dt=0.0, Q_h_total=1000.0)
        if first == "condenser":
            c.build_stream_collection(include_cond=True)
        ev = list(c.build_stream_collection(include_evap=True)._streams.values())
        co = list(c.build_stream_collection(include_cond=True)._streams.values())
        H, S, P = c.Hs, c.Ss, c.Ps
        psat_e, psat_c = c._get_P_sat_from_T(Te + 273.15), c._get_P_sat_from_T(Tc + 273.15)
        rel = lambda a, b: abs(a - b) <= 1e-6 * max(1.0, abs(a), abs(b))
        h.check("first_law", rel(c.Q_cond, c.Q_evap + c.work) and c.work > 0)
        h.check("cop", rel(c.COP_h, c.COP_r + 1))
        h.check("compression_entropy", S[1] >= S[0] - 1e-9)
        h.check("throttle_isenthalpic", rel(H[3], H[2]))
        h.check("throttle_entropy", S[3] >= S[2] - 1e-9)
        h.check("pressures", rel(P[0], psat_e) and rel(P[3], psat_e) and rel(P[1], psat_c) and rel(P[2], psat_c))
        h.check("condenser_streams_carry_Q_cond", rel(sum(s.heat_flow for s in co), c.Q_cond))
        h.check("evaporator_streams_carry_Q_evap", rel(sum(s.heat_flow for s in ev), c.Q_evap))
        h.check("stream_directions", all(s.t_supply > s.t_target for s in co) and all(s.t_supply < s.t_target for s in ev))
        # asking again gives the same streams (the requests do not consume or re-scale anything), and they sit at the cycle's levels
        ev2 = list(c.build_stream_collection(include_evap=True)._streams.values())
        co2 = list(c.build_stream_collection(include_cond=True)._streams.values())
        both = list(c.build_stream_collection(include_cond=True, include_evap=True)._streams.values())
        same = lambda A, B: len(A) == len(B) and all(rel(a.t_supply, b.t_supply) and rel(a.t_target, b.t_target) and rel(a.heat_flow, b.heat_flow) for a, b in zip(A, B))
        h.check("repeated_request_gives_the_same_evaporator_streams", same(ev, ev2))
        h.check("repeated_request_gives_the_same_condenser_streams", same(co, co2))
        h.check("combined_request_gives_both_sets", len(both) == len(ev) + len(co))
        h.check("evaporator_streams_at_the_evaporating_level", all(Te - 0.05 <= min(s.t_supply, s.t_target) and max(s.t_supply, s.t_target) <= Te + dsh + 0.05 for s in ev2))
        h.check("condenser_streams_not_below_the_subcooled_outlet", all(min(s.t_supply, s.t_target) >= Tc - dsc - 0.05 for s in co2))


def obligations():
    C = shp.SimpleHeatPumpCycle
    return [
        Obligation("C18.metrics", ob_metrics, functions=[C._get_metrics], expect=("first_law_Qcond_is_Qevap_plus_work", "heating_cop_is_cooling_cop_plus_one")),
        Obligation("C18.compressor", ob_compressor, functions=[C._compute_compressor_outlet_state], expect=("compression_does_not_decrease_entropy",),
                   stubs=("CoolProp.AbstractState (axiomatised)",)),
        Obligation("C18.cycle", ob_cycle, functions=[C.solve, C._get_P_sat_from_T, C._compute_state_from_pressure_temperature, C._compute_condenser_outlet_state,
                                                   C._compute_state_from_pressure_enthalpy, C._save_cycle_state, C._get_metrics],
                   expect=("throttling_conserves_enthalpy",), stubs=("CoolProp.AbstractState (axiomatised)",)),
        Obligation("C18.condenser_profile", ob_condenser_profile, functions=[C._build_condenser_profile], stubs=("CoolProp.AbstractState (axiomatised)",),
                   expect=("enthalpy_never_rises_along_the_condenser",)),
        Obligation("C18.fluid_state.b", ob_fluid_state, kind="bounded", bound="every sequence of 3 operations from {solve(A), solve(B), state = A, state = B} on one object",
                   functions=[C.solve, C._validate_solve_inputs, C.state.fset], stubs=("process_fluid_state (tagged stand-in)",), max_paths=20000),
        Obligation("C18.native.b", ob_native, kind="bounded", bound="five concrete cycles (ammonia, water, R134a, propane; incl. a 3 K lift) x both request orders, real CoolProp",
                   functions=[C.solve, C.build_stream_collection]),
        Obligation("C18.streams", ob_streams, functions=[C.build_stream_collection], expect=("evaporator_streams_carry_Q_evap",),
                   stubs=("_build_condenser_profile / _build_evaporator_profile (the cycle's own state points, symbolic)",)),
    ]
