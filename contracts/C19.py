"""C19 -- Stream and StreamCollection objects stay consistent under any use.

Stream: the invariant INV_S is inductive -- established by the constructor, preserved by every
setter from an ARBITRARY state satisfying it (every stored attribute an independent real), so it
holds after any finite sequence of assignments.  Path-complete scalar proofs.

StreamCollection: dictionary keys are strings, which the VC generator does not model
symbolically; the collection obligations enumerate every operation sequence over a small
concrete key alphabet with symbolic sort keys (bounded, labelled so).
"""
from __future__ import annotations

import itertools

from OpenPinch.classes.stream import Stream
from OpenPinch.classes.stream_collection import StreamCollection
from pvc.engine import Obligation
from pvc.sym import And, Implies, Not, Or

from .shared import COLD, HOT, arbitrary_stream, inv_stream, inv_stream_clauses

LEVEL = "proof"
ASSUMPTIONS = [
    "C19 stream obligations range over numeric attribute values (None-valued temperatures are outside the invariant's domain)",
    "the setter obligations take htc != 0 as precondition (a zero film coefficient has no reciprocal)",
]
NOT_COVERED = [
    "collections: unbounded number of members / arbitrary key strings (bounded small-scope only)",
]


def _check_inv(h, s, prefix=""):
    for n, c in inv_stream_clauses(h, s):
        h.check(prefix + n, c)


# ---- constructor ------------------------------------------------------------------------


def ob_init(h):
    ts, tt, q = h.real("t_supply"), h.real("t_target"), h.real("heat_flow")
    dt = h.real("dt_cont", lo=0)
    htc = h.real("htc", lo=0)
    # a stream with no direction and no duty has no kind: outside C19's domain (C14 covers totality)
    h.assume(Or(ts != tt, q != 0))
    s = Stream("s", ts, tt, dt_cont=dt, heat_flow=q, htc=htc)
    _check_inv(h, s)
    # the documented latent rule: equal temperatures become a 0.01 K stream whose kind follows the duty sign
    if ts == tt:
        h.cover("latent")
        h.check("latent_span", h.eq(s._t_max - s._t_min, 0.01))
        h.check("latent_kind", (s._type == COLD) if q > 0 else (s._type == HOT))
        # the sign of the duty of an isothermal stream only gives its direction: the stream carries the magnitude
        h.check("latent_duty_is_the_magnitude", h.eq(s._heat_flow, q if q > 0 else -q))
        h.check("latent_heat_capacity_flow_positive", s._CP > 0)
    else:
        h.check("kind_from_direction", (s._type == HOT) if ts > tt else (s._type == COLD))
    h.check("rcp", h.eq(s._RCP_prod, s._CP * s._htr))


# ---- setters ------------------------------------------------------------------------------


def _setter(attr):
    def ob(h):
        s = arbitrary_stream(h, "s")
        h.assume(inv_stream(h, s))
        h.assume(s._htc != 0)
        v = h.real("new_value")
        if attr == "dt_cont":
            h.assume(v >= 0)
        if attr == "htc":
            h.assume(v != 0)
        if attr in ("t_supply", "t_target", "heat_flow"):
            # same domain restriction as the constructor: the stream keeps a direction or a duty
            ts = v if attr == "t_supply" else s._t_supply
            tt = v if attr == "t_target" else s._t_target
            q = v if attr == "heat_flow" else s._heat_flow
            h.assume(Or(ts != tt, q != 0))
        setattr(s, attr, v)
        h.check("stored", h.eq(getattr(s, attr), v) if attr not in ("t_target",) else True)
        _check_inv(h, s)
    return ob


def ob_set_heat_flow_method(h):
    s = arbitrary_stream(h, "s")
    h.assume(inv_stream(h, s))
    h.assume(s._htc != 0)
    v = h.real("new_value")
    s.set_heat_flow(v)
    _check_inv(h, s)
    h.check("rcp", h.eq(s._RCP_prod, s._CP * s._htr))


def ob_set_htr(h):
    s = arbitrary_stream(h, "s")
    h.assume(inv_stream(h, s))
    v = h.real("new_value")
    h.assume(v != 0)
    s.htr = v
    _check_inv(h, s)


# ---- collections (bounded) ---------------------------------------------------------------

NAMES = ("a", "b", "a_1", "a_2")


def _mk_stream(h, i, name):
    # a constructed (hence invariant-satisfying) stream with a symbolic supply temperature as sort key
    ts = h.real(f"m{i}_ts")
    return Stream(name, ts, ts - 10.0, heat_flow=100.0)


def _members(c):
    return list(c._streams.values())


def _check_view(h, c, expected, tag):
    """len / iteration / order against the ghost list of members that must be held."""
    h.check(f"{tag}.len", len(c) == len(expected))
    it = list(c)
    h.check(f"{tag}.iter_count", len(it) == len(expected))
    h.check(f"{tag}.iter_exact", sorted(map(id, it)) == sorted(map(id, expected)))
    ordered = True
    for x, y in zip(it, it[1:]):
        ordered = And(ordered, x.t_supply >= y.t_supply)
    h.check(f"{tag}.iter_sorted_desc", ordered)


def _coll_ops(n_ops, ops=("add", "remove", "concat", "iterate"), NAMES=NAMES, KEYS=("feed", "a", "b")):
    def ob(h):
        c = StreamCollection()
        ghost = []
        made = 0
        for step in range(n_ops):
            op = h.choice(f"op{step}", list(ops))
            if op == "add":
                s = _mk_stream(h, made, h.choice(f"name{step}", NAMES)); made += 1
                c.add(s)
                ghost.append(s)
            elif op == "add_key":
                # explicit key that differs from the member's own name (the mapping key and .name are independent)
                s = _mk_stream(h, made, h.choice(f"name{step}", NAMES)); made += 1
                c.add(s, key=h.choice(f"key{step}", KEYS))
                ghost.append(s)
            elif op == "overwrite":
                # explicit overwrite of an existing key: the member under that key is replaced, nothing else changes
                keys = list(c._streams.keys())
                if not keys:
                    continue
                k = h.choice(f"ow{step}", keys) if len(keys) > 1 else keys[0]
                victim = c._streams[k]
                s = _mk_stream(h, made, k); made += 1
                c.add(s, prevent_overwrite=False)
                ghost = [s if g is victim else g for g in ghost]
            elif op == "add_many":
                s1 = _mk_stream(h, made, h.choice(f"name{step}", NAMES)); made += 1
                s2 = _mk_stream(h, made, h.choice(f"name{step}b", NAMES)); made += 1
                c.add_many([s1, s2])
                ghost += [s1, s2]
            elif op == "remove":
                keys = list(c._streams.keys())
                if not keys:
                    continue
                k = h.choice(f"rm{step}", keys) if len(keys) > 1 else keys[0]
                victim = c._streams[k]
                c.remove(k)
                ghost = [g for g in ghost if g is not victim]
            elif op == "concat":
                other = StreamCollection()
                s = _mk_stream(h, made, h.choice(f"name{step}", NAMES)); made += 1
                other.add(s)
                c = c + other
                ghost.append(s)
            elif op == "iterate":
                list(c)
            elif op == "remove_after_iteration":
                # the removal meets a CLEAN sorted cache (a view was taken since the last mutation)
                keys = list(c._streams.keys())
                if not keys:
                    continue
                list(c)
                k = h.choice(f"rm{step}", keys) if len(keys) > 1 else keys[0]
                victim = c._streams[k]
                c.remove(k)
                ghost = [g for g in ghost if g is not victim]
                # the view right after the removal, before anything else touches the collection
                _check_view(h, c, ghost, f"after{step}.view")
            elif op == "set_key":
                c.set_sort_key("t_supply", reverse=True)
            h.check(f"after{step}.len", len(c) == len(ghost))
            h.check(f"after{step}.held", sorted(map(id, _members(c))) == sorted(map(id, ghost)))
        _check_view(h, c, ghost, "final")
    return ob


def ob_replace(h):
    """replace() holds every member of the mapping it is given."""
    n = h.choice("n", [1, 2, 3])
    members = [_mk_stream(h, i, h.choice(f"name{i}", NAMES)) for i in range(n)]
    c = StreamCollection()
    c.add(_mk_stream(h, 9, "old"))
    c.replace({f"k{i}": m for i, m in enumerate(members)})
    _check_view(h, c, members, "replaced")


def ob_stale_cache(h):
    """Iteration follows the sort key even when a member's key changed after the last iteration."""
    c = StreamCollection()
    a, b = _mk_stream(h, 0, "a"), _mk_stream(h, 1, "b")
    c.add(a)
    c.add(b)
    cached = list(c)
    v = h.real("new_ts")
    a.t_supply = v
    # recorded finding: the lazy cache is not invalidated by a member's own setter; its region is
    # exactly "the cached order is no longer the sorted order"
    h.exclude_known("KF-C19-stale-sort-cache", Not(cached[0].t_supply >= cached[1].t_supply))
    _check_view(h, c, [a, b], "after_setter")


def ob_sort_key(h):
    """set_sort_key with every documented form of key: iteration (and get_index) follow the key, lexicographically for a list of
    attribute names, in the requested direction."""
    form = h.choice("key_form", ["attribute_name", "list_of_one", "list_of_two", "list_of_two_swapped", "callable"])
    reverse = h.choice("reverse", [False, True])
    c = StreamCollection()
    ms = []
    for i, n in enumerate(("a", "b", "c")):
        ts, tt = h.real(f"m{i}_ts"), h.real(f"m{i}_tt")
        h.assume(ts > tt)
        m = Stream(n, ts, tt, heat_flow=100.0)
        ms.append(m)
        c.add(m)
    list(c)                                          # a sorted view exists before the key changes
    key = {"attribute_name": "t_target", "list_of_one": ["t_target"], "list_of_two": ["t_target", "t_supply"], "list_of_two_swapped": ["t_supply", "t_target"],
           "callable": (lambda s: s.t_target)}[form]
    c.set_sort_key(key, reverse=reverse)
    it = list(c)
    h.check("same_members", sorted(map(id, it)) == sorted(map(id, ms)))
    prim = (lambda s: s.t_supply) if form == "list_of_two_swapped" else (lambda s: s.t_target)
    sec = {"list_of_two": (lambda s: s.t_supply), "list_of_two_swapped": (lambda s: s.t_target)}.get(form)
    for x, y in zip(it, it[1:]):
        a, b = (y, x) if reverse else (x, y)        # a must not come after b in ascending order
        h.check("ordered_by_the_first_key", prim(a) <= prim(b))
        if sec is not None:
            h.check("ties_on_the_first_key_ordered_by_the_second", Implies(h.eq(prim(a), prim(b)), sec(a) <= sec(b)))
    for m in ms:
        h.check("index_is_position", it[c.get_index(m)] is m)


def ob_index(h):
    c = StreamCollection()
    ms = [_mk_stream(h, i, n) for i, n in enumerate(("a", "b", "c"))]
    for m in ms:
        c.add(m)
    it = list(c)
    for m in ms:
        i = c.get_index(m)
        h.check("index_is_position", it[i] is m)
        h.check("getitem_int", c[i] is m)
        h.check("getitem_name", c[m.name] is m)


def obligations():
    fs_stream = [Stream.__init__, Stream._update_attributes, Stream._set_hot_stream_min_max_temperatures,
                 Stream._set_cold_stream_min_max_temperatures, Stream._calc_htr_and_cp_product, Stream._calc_utility_cost]
    obs = [Obligation("C19.stream.init", ob_init, functions=fs_stream, expect=("min_le_max", "latent_span"),
                      doc="constructor establishes INV_S for every numeric argument tuple (incl. the 0.01 K latent rule)")]
    for attr in ("t_supply", "t_target", "heat_flow", "dt_cont", "htc"):
        obs.append(Obligation(f"C19.stream.set.{attr}", _setter(attr), functions=[getattr(Stream, attr).fset] + fs_stream[1:],
                              expect=("min_le_max", "kind_matches_direction"),
                              doc=f"INV_S is preserved by `s.{attr} = v` from an arbitrary state satisfying INV_S"))
    obs.append(Obligation("C19.stream.set_heat_flow", ob_set_heat_flow_method, functions=[Stream.set_heat_flow], expect=("cp_times_span_is_duty",),
                          doc="INV_S preserved by set_heat_flow(v)"))
    obs.append(Obligation("C19.stream.set.htr", ob_set_htr, functions=[Stream.htr.fset], expect=("htr_is_reciprocal",),
                          doc="INV_S (reciprocity) preserved by `s.htr = v`"))
    fs_coll = [StreamCollection.add, StreamCollection.add_many, StreamCollection.remove, StreamCollection.__add__, StreamCollection.__iter__,
               StreamCollection._ensure_sorted, StreamCollection.__len__, StreamCollection.set_sort_key]
    obs.append(Obligation("C19.coll.ops.b", _coll_ops(3), kind="bounded", bound="every sequence of 3 operations from {add, remove, +, iterate} "
                          "over key alphabet {a, b, a_1, a_2}; sort keys symbolic", functions=fs_coll, max_paths=60000,
                          doc="no member lost or replaced, len() = members held, iteration = members in sort-key order"))
    obs.append(Obligation("C19.coll.many.b", _coll_ops(2, ("add_many", "set_key", "remove")), kind="bounded", bound="every sequence of 2 operations from {add_many (2 members), "
                          "set_sort_key, remove}; key alphabet {a, b, a_1, a_2}", functions=fs_coll, max_paths=60000))
    obs.append(Obligation("C19.coll.overwrite.b", _coll_ops(4, ("add", "iterate", "overwrite")), kind="bounded", bound="every sequence of 4 operations from {add, iterate, "
                          "add(prevent_overwrite=False) onto an existing key}; key alphabet {a, b, a_1, a_2}", functions=fs_coll, max_paths=200000))
    obs.append(Obligation("C19.coll.remove.b", _coll_ops(3, ("add", "add_key", "remove_after_iteration"), NAMES=("a", "a_1"), KEYS=("feed", "a")), kind="bounded", bound="every sequence of 3 operations from {add, "
                          "add(key=k) with k from {feed, a}, iterate-then-remove}; member names from {a, a_1} (keys that differ from the member's name: clash renames and explicit keys)",
                          functions=fs_coll, max_paths=200000, doc="a removal that meets a clean sorted cache removes exactly the member stored under that key from every view"))
    obs.append(Obligation("C19.coll.ops4.b", _coll_ops(4), kind="bounded", tier="thorough", bound="as C19.coll.ops.b with 4 operations", functions=fs_coll, max_paths=2000000))
    obs.append(Obligation("C19.coll.replace.b", ob_replace, kind="bounded", bound="1..3 members, names from {a, b, a_1}", functions=[StreamCollection.replace]))
    obs.append(Obligation("C19.coll.cache.b", ob_stale_cache, kind="bounded", bound="2 members, one key reassigned after an iteration",
                          functions=[StreamCollection._ensure_sorted, Stream.t_supply.fset]))
    obs.append(Obligation("C19.coll.sort_key.b", ob_sort_key, kind="bounded", bound="3 members with symbolic temperatures; key given as attribute name, list of one / two names, callable; both directions",
                          functions=[StreamCollection.set_sort_key, StreamCollection._ensure_sorted, StreamCollection.get_index], max_paths=200000,
                          doc="every documented form of sort key orders the iteration (lexicographic for lists)"))
    obs.append(Obligation("C19.coll.index.b", ob_index, kind="bounded", bound="3 members, symbolic sort keys", functions=[StreamCollection.get_index, StreamCollection.__getitem__]))
    return obs
