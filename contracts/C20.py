"""C20 -- effectiveness-NTU and LMTD relations are mutually consistent.

Scalar, path-complete proofs over all real (NTU, c) resp. (eff, c) of the stated domains.  exp / ln /
pow are uninterpreted functions constrained by ground instances of their laws (inverse pair, sign,
strict monotonicity, tangent bounds) generated for every term the real code builds.
"""
from __future__ import annotations

import OpenPinch.utils.heat_exchanger as hx
from OpenPinch.lib.enums import HeatExchangerTypes as HX
from pvc.engine import Obligation
from pvc.sym import And, Implies, Not, Or

LEVEL = "proof"
LEVEL_TEXT = ("Every listed clause is proved for all real NTU > 0, 0 <= c <= 1 (resp. 0 < eff < reachable limit) by path-complete symbolic "
              "execution of the real HX_Eff / HX_NTU / MultiPass* / compute_LMTD_from_dts; the numerical secant inverse, the 20-term series "
              "and dominance by counter-flow are outside the technique (listed as not covered).")
ASSUMPTIONS = [
    "exp, ln, x**y are uninterpreted; only these laws are used: exp>0, ln(exp t)=t, exp(ln u)=u (u>0), strict monotonicity, exp(t)>=1+t, "
    "1-1/u <= ln u <= u-1 (Mathlib Real.one_sub_inv_le_log_of_pos, Real.log_le_sub_one_of_pos), exp(a)exp(-a)=1, ln(1/u)=-ln u, (a**(1/n))**n=a",
    "C20.lmtd.upper additionally uses the log-mean <= arithmetic-mean inequality ln u >= 2(u-1)/(u+1) for u >= 1: no longer assumed, proved in lean/Axioms.lean (log_ge_two_mul_ax, log_mean_upper_ax, log_mean_lower_ax) and re-checked by C20.axioms.lean; like the exp / ln / sqrt / pow ground axioms above (every add_axiom line tied to its theorem by hash). What remains assumed: the reading of the uninterpreted symbols as Real.exp / Real.log / Real.sqrt / Real.rpow and Lean's kernel",
]
NOT_COVERED = [
    "HX_NTU_Numerical (secant iteration): no inductive invariant gives convergence, hence the inverse for CrFUU / CrFMM",
    "effectiveness never exceeds the counter-flow value (analytic inequalities between different closed forms)",
    "CrossflowUnmixedEff1 (20-term series) and CrossflowUnmixedEff2 (finite-row correlations)",
]

CLOSED = ["CF", "PF", "CrFMUmax", "CrFMUmin", "ShellTube", "CondEvap"]
ALL = ["CF", "PF", "CrFUU", "CrFMM", "CrFMUmax", "CrFMUmin", "ShellTube", "CondEvap"]


def _forms(arr):
    m = HX[arr]
    return {"member": m, "text": m.value}


def _domain(h, arr, N, c):
    """Capacity ratio range on which the arrangement's closed form is defined."""
    h.assume(N > 0)
    h.assume(c <= 1)
    h.assume(c >= 0)


def _ob_forms_agree(arr):
    def ob(h):
        N, c = h.real("ntu"), h.real("c")
        _domain(h, arr, N, c)
        if arr == "CrFUU":
            # modular: the 20-term series is a callee; only 'pure function of (NTU, c)' is assumed of it
            h.stub(hx, "CrossflowUnmixedEff1", h.pure_function("CrossflowUnmixedEff1", 2))
        e_m = hx.HX_Eff(HX[arr], N, c)
        e_t = hx.HX_Eff(HX[arr].value, N, c)
        h.check("eff_same_for_member_and_text", h.eq(e_m, e_t))
    return ob


def _ob_forms_agree_ntu(arr):
    def ob(h):
        # an effectiveness the arrangement can reach: the value of the forward relation at some NTU > 0
        N, c = h.real("ntu"), h.real("c")
        _domain(h, arr, N, c)
        e = hx.HX_Eff(HX[arr].value, N, c)
        h.assume(And(e > 0, e < 1))     # C20.inverse.* proves this range
        n_m = hx.HX_NTU(HX[arr], e, c)
        n_t = hx.HX_NTU(HX[arr].value, e, c)
        h.check("ntu_same_for_member_and_text", h.eq(n_m, n_t))
        h.check("ntu_not_the_fallthrough_sentinel", n_m != -1)
    return ob


def _ob_roundtrip(arr, form):
    def ob(h):
        A = _forms(arr)[form]
        N, c = h.real("ntu"), h.real("c")
        _domain(h, arr, N, c)
        e = hx.HX_Eff(A, N, c)
        h.check("eff_in_unit_interval", And(e >= 0, e <= 1))
        h.assume(And(e > 0, e < 1))  # proved just above (strictness from exp > 0 / < 1)
        N2 = hx.HX_NTU(A, e, c)
        if arr == "ShellTube" and h.symbolic:
            _shelltube_derivation(h, N, c, e, N2)
        else:
            h.check("ntu_of_eff_is_ntu", h.eq(N2, N, tol=0))
    return ob


def _shelltube_derivation(h, N, c, e, N2):
    """Explicit proof of HX_NTU(HX_Eff(N, c), c) == N for the shell-and-tube relations, each step from the listed facts alone.
    Terms are built exactly as the code builds them:  a = 1 + c^2,  s = a^0.5,  r = s^0.5 (forward relation),  f = a^(1/4),
    g = a^(-0.5) (inverse relation),  E = exp(2 (N s / 2))."""
    from pvc.npshim import MATH
    a = 1 + c ** 2
    s = a ** 0.5
    r = s ** 0.5
    f = a ** (1 / 4)
    g = a ** -0.5
    Ns = N / 1                                   # the code divides the NTU by the number of passes (1 here) before use
    x = 2 * (Ns * s / 2)
    E = MATH.exp(x)
    D1, D2 = 1 + c - f, 1 + c + f
    ratio = (2 - e * D1) / (2 - e * D2)
    h.derive("lemma_a_at_least_one", a >= 1, [c >= 0])
    h.derive("lemma_roots", And(s >= 1, r >= 1), [a >= 1, s >= 0, h.eq(s * s, a), r >= 0, h.eq(r * r, s)], opaque=[a, s, r])
    h.derive("lemma_fourth_root_is_root_of_root", h.eq(r, f), [And(s >= 1, r >= 1), h.eq(s * s, a), h.eq(r * r, s), f > 0, h.eq(f * f * f * f, a)], opaque=[a, s, r, f])
    h.derive("lemma_inverse_root", h.eq(g * s, 1.0), [g > 0, h.eq(g * g * a, 1.0), h.eq(s * s, a), And(s >= 1, r >= 1)], opaque=[a, s, g, r])
    h.derive("lemma_exp_above_one", E > 1, [Implies(x > 0, E > 1), N > 0, And(s >= 1, r >= 1)], opaque=[E, s, r])
    den = (1 + c) + r * ((E + 1) / (E - 1))
    h.derive("lemma_denominator_positive", den > 0, [E > 1, c >= 0, And(s >= 1, r >= 1)], opaque=[E, r, s])
    h.derive("lemma_eff_closed_form", h.eq(e * den, 2.0), [den > 0], opaque=[den])
    h.derive("lemma_ratio_is_exp", h.eq(ratio, E), [h.eq(e * den, 2.0), h.eq(r, f), E > 1, c >= 0, c <= 1, And(s >= 1, r >= 1), e > 0, e < 1],
             opaque=[E, r, f, e, s])
    L = MATH.log(ratio)
    h.derive("lemma_log_of_ratio", h.eq(L, x), [h.eq(ratio, E), h.eq(MATH.log(E), x)], opaque=[])
    h.derive("ntu_of_eff_is_ntu", h.eq(N2, N), [h.eq(L, x), h.eq(g * s, 1.0), And(s >= 1, r >= 1)], opaque=[L, g, s, r])


def _ob_range(arr):
    def ob(h):
        A = HX[arr].value
        N, c = h.real("ntu"), h.real("c")
        _domain(h, arr, N, c)
        e = hx.HX_Eff(A, N, c)
        h.check("eff_positive", e > 0)
        h.check("eff_below_one", e < 1 if arr != "CF" else e < 1)
    return ob


def _ob_mono(arr):
    def ob(h):
        A = HX[arr].value
        N1, N2, c = h.real("ntu1"), h.real("ntu2"), h.real("c")
        _domain(h, arr, N1, c)
        h.assume(N2 > N1)
        e1 = hx.HX_Eff(A, N1, c)
        e2 = hx.HX_Eff(A, N2, c)
        h.check("eff_nondecreasing_in_ntu", h.le(e1, e2))
    return ob


def _ob_c0(arr):
    def ob(h):
        N = h.real("ntu", lo=0)
        h.assume(N > 0)
        e = hx.HX_Eff(HX[arr].value, N, 0.0)
        ref = hx.HX_Eff(HX.CondEvap.value, N, 0.0)    # 1 - exp(-NTU), the arrangement the property names
        h.check("eff_at_c0_is_one_minus_exp", h.eq(e, ref))
    return ob


def _ob_multipass(direction):
    def ob(h):
        P = h.choice("passes", [2, 3, 4])
        c = h.real("c")
        h.assume(And(c >= 0, c <= 1))
        e = h.real("eff")
        h.assume(And(e > 0, e < 1))
        if direction == "eff_of_ntu":
            # single-pass value e -> multi-pass -> back
            m = hx.MultiPassEff(e, c, P)
            h.check("multi_in_unit_interval", And(m > 0, m < 1))
            h.assume(And(m > 0, m < 1))
            if c != 1:
                # ghost lemma: the ratio the inverse takes the root of is the P-th power of the single-pass ratio
                X = (1 - e * c) / (1 - e)
                h.check("lemma_ratio_is_power", h.eq((1 - m * c) / (1 - m), X ** P))
            back = hx.MultiPassNTU(m, c, P)
            if c != 1 and h.symbolic:
                # explicit derivation, each step from the listed facts alone (the full path query is a degree-2P polynomial problem that
                # the solver decides or not depending on its mood):  R > 0;  F^P = R (root axiom);  R = X^P;  F, X > 0  =>  F = X;
                # then the code's expression in F is the single-pass value
                R = (1 - m * c) / (1 - m)
                F = R ** (1 / P)                              # the same term the code builds
                X = (1 - e * c) / (1 - e)
                h.derive("lemma_ratio_positive", R > 0, [m > 0, m < 1, c >= 0, c <= 1], opaque=[m])
                h.derive("lemma_single_ratio_positive", X > 0, [e > 0, e < 1, c >= 0, c <= 1])
                h.derive("lemma_root_power", And(F > 0, h.eq(F ** P, R)), [R > 0, Implies(R > 0, And(F > 0, h.eq(F ** P, R)))], opaque=[F, R])
                h.derive("lemma_root_is_single_ratio", h.eq(F, X), [And(F > 0, h.eq(F ** P, R)), h.eq(R, X ** P), X > 0], opaque=[F, X, R])
                h.derive("single_of_multi_is_single", h.eq(back, e), [h.eq(F, X), e > 0, e < 1, c >= 0, c <= 1, Not(h.eq(c, 1.0))], opaque=[F])
            else:
                h.check("single_of_multi_is_single", h.eq(back, e))
        else:
            s = hx.MultiPassNTU(e, c, P)
            h.check("single_in_unit_interval", And(s > 0, s < 1))
            h.assume(And(s > 0, s < 1))
            if c != 1:
                r = ((1 - e * c) / (1 - e)) ** (1 / P)      # the same term the code builds
                h.check("lemma_ratio_is_root", h.eq((1 - s * c) / (1 - s), r))
                h.check("lemma_root_power", h.eq(r ** P, (1 - e * c) / (1 - e)))
                h.check("lemma_ratio_power", h.eq(((1 - s * c) / (1 - s)) ** P, (1 - e * c) / (1 - e)),
                        opaque=[(1 - s * c) / (1 - s), r] if h.symbolic else [])
            back = hx.MultiPassEff(s, c, P)
            opaque = [((1 - s * c) / (1 - s)) ** P] if (h.symbolic and c != 1) else []
            h.check("multi_of_single_is_multi", h.eq(back, e), opaque=opaque)
    return ob


# ---- LMTD -------------------------------------------------------------------------------------


def _lm(a, b):
    r = hx.compute_LMTD_from_dts(a, b)
    return r[()] if getattr(r, "ndim", 1) == 0 else r


def ob_lmtd_bounds(h):
    a, b = h.real("dt1"), h.real("dt2")
    h.assume(And(a > 0.000001, b > 0.000001))
    L = _lm(a, b)
    lo = a if h.symbolic and False else None
    from pvc.sym import smin
    h.check("lmtd_at_least_smaller_difference", h.ge(L, smin(a, b)))
    h.check("lmtd_at_most_larger_difference", h.le(L, -smin(-a, -b)))


def ob_lmtd_upper(h):
    a, b = h.real("dt1"), h.real("dt2")
    h.assume(And(a > 0.000001, b > 0.000001))
    if h.symbolic:
        # analytic lemma (log-mean <= arithmetic mean; proved in lean/Axioms.lean: log_mean_upper_ax / log_mean_lower_ax, checked by C20.axioms.lean), instantiated for the one ratio the code builds
        from pvc.sym import SymReal, _F_LOG, ctx
        import z3
        u = (a / b).z
        ctx().add_axiom(z3.Implies(u >= 1, _F_LOG(u) * (u + 1) >= 2 * (u - 1)))
        ctx().add_axiom(z3.Implies(z3.And(u > 0, u <= 1), _F_LOG(u) * (u + 1) <= 2 * (u - 1)))
    L = _lm(a, b)
    h.check("lmtd_at_most_arithmetic_mean", h.le(L, (a + b) / 2))


def ob_lmtd_symmetric(h):
    a, b = h.real("dt1"), h.real("dt2")
    h.assume(And(a > 0.000001, b > 0.000001))
    L1 = _lm(a, b)
    L2 = _lm(b, a)
    d = abs(a - b)
    close_ab = d <= 1e-6 + 1e-5 * abs(b)
    close_ba = d <= 1e-6 + 1e-5 * abs(a)
    if (close_ab and close_ba) or (not close_ab and not close_ba):
        h.check("symmetric_exactly", h.eq(L1, L2))
    else:
        # the equal-difference test of the code is relative to its second argument only; inside that
        # sliver one call returns the arithmetic and the other the logarithmic mean
        h.check("symmetric_within_half_gap", And(L1 - L2 <= d / 2, L2 - L1 <= d / 2))


def ob_lmtd_equal_branch(h):
    a, b = h.real("dt1"), h.real("dt2")
    h.assume(And(a > 0.000001, b > 0.000001))
    h.assume(abs(a - b) <= 1e-6)
    L = _lm(a, b)
    # exact comparison also when replaying: the code must return the very expression (a + b) / 2, not a value that merely rounds near it
    h.check("arithmetic_mean_returned", L == (a + b) / 2)


def ob_lmtd_refuses(h):
    a, b = h.real("dt1"), h.real("dt2")
    h.assume(Or(a <= 0, b <= 0))
    try:
        _lm(a, b)
    except ValueError:
        h.check("refused", True)
        return
    h.check("refused", False)


def ob_lmtd_from_ts(h):
    hi, ho, ci, co = h.real("T_hot_in"), h.real("T_hot_out"), h.real("T_cold_in"), h.real("T_cold_out")
    h.assume(And(hi - co > 0.000001, ho - ci > 0.000001, hi >= ho, co >= ci))
    r = hx.compute_LMTD_from_ts(hi, ho, ci, co)
    r = r[()] if getattr(r, "ndim", 1) == 0 else r
    h.check("equals_lmtd_of_end_differences", h.eq(r, _lm(hi - co, ho - ci)))


def obligations():
    fs = [hx.HX_Eff, hx.HX_NTU]
    obs = []
    for arr in ALL:
        obs.append(Obligation(f"C20.dispatch.eff.{arr}", _ob_forms_agree(arr), functions=[hx.HX_Eff], expect=("eff_same_for_member_and_text",),
                              doc="HX_Eff takes the same branch for the enumeration member and for its text"))
    for arr in CLOSED:
        # the shell-and-tube relations nest square roots, a fourth root, coth and ln: left to the solver alone their inverse proof was not
        # stable under machine load
        heavy = arr == "ShellTube"
        tier = "quick"          # the shell-and-tube inverse is an explicit derivation now (_shelltube_derivation): milliseconds per step
        tmo = 30000 if heavy else 20000
        obs.append(Obligation(f"C20.dispatch.ntu.{arr}", _ob_forms_agree_ntu(arr), functions=[hx.HX_NTU], expect=("ntu_same_for_member_and_text",), tier=tier, timeout_ms=tmo,
                              doc="HX_NTU takes the same (own) branch for both label forms"))
        for form in ("member", "text"):
            obs.append(Obligation(f"C20.inverse.{arr}.{form}", _ob_roundtrip(arr, form), functions=fs, expect=("ntu_of_eff_is_ntu",), timeout_ms=tmo, tier=tier,
                                  doc="HX_NTU(HX_Eff(NTU, c), c) == NTU for all NTU > 0, 0 <= c <= 1"))
        obs.append(Obligation(f"C20.mono.{arr}", _ob_mono(arr), functions=[hx.HX_Eff], expect=("eff_nondecreasing_in_ntu",), timeout_ms=20000))
        obs.append(Obligation(f"C20.c0.{arr}", _ob_c0(arr), functions=[hx.HX_Eff], expect=("eff_at_c0_is_one_minus_exp",)))
    obs.append(Obligation("C20.c0.CrFMM", _ob_c0("CrFMM"), functions=[hx.HX_Eff], expect=("eff_at_c0_is_one_minus_exp",)))
    for d in ("eff_of_ntu", "ntu_of_eff"):
        obs.append(Obligation(f"C20.multipass.{d}", _ob_multipass(d), functions=[hx.MultiPassEff, hx.MultiPassNTU], timeout_ms=30000))
    lf = [hx.compute_LMTD_from_dts]
    obs.append(Obligation("C20.lmtd.between_end_differences", ob_lmtd_bounds, functions=lf, expect=("lmtd_at_least_smaller_difference",)))
    from pvc import leanax
    obs.append(Obligation("C20.axioms.lean", None, kind="lean", runner=leanax.runner, functions=[],
                          doc="the ground axioms about exp / ln / sqrt / pow / rounding given to the SMT solver, and the log-mean lemma of C20.lmtd.upper, are theorems of "
                              "Mathlib's real analysis: lean/Axioms.lean, re-checked by Lean on every run; every add_axiom line of pvc/sym.py is tied to its theorem by hash"))
    obs.append(Obligation("C20.lmtd.upper", ob_lmtd_upper, functions=lf, expect=("lmtd_at_most_arithmetic_mean",),
                          assumptions=("lemma ln u >= 2(u-1)/(u+1) for u >= 1 (and <= for 0 < u <= 1): proved in Lean (lean/Axioms.lean, obligation C20.axioms.lean), instantiated by hand for the one ratio the code builds",)))
    obs.append(Obligation("C20.lmtd.symmetric", ob_lmtd_symmetric, functions=lf))
    obs.append(Obligation("C20.lmtd.equal_branch", ob_lmtd_equal_branch, functions=lf, expect=("arithmetic_mean_returned",)))
    obs.append(Obligation("C20.lmtd.refuses_nonpositive", ob_lmtd_refuses, functions=lf, expect=("refused",)))
    obs.append(Obligation("C20.lmtd.from_ts", ob_lmtd_from_ts, functions=[hx.compute_LMTD_from_ts], expect=("equals_lmtd_of_end_differences",)))
    return obs
