"""Predicates and pre-state builders shared by the contract files.

Everything here is specification text: it never re-implements repository code, it only
states what must hold of the objects the real code produces.
"""
from __future__ import annotations

from OpenPinch.classes.stream import Stream
from OpenPinch.lib.enums import StreamType
from pvc import sym
from pvc.sym import And, Implies, Not, Or

HOT = StreamType.Hot.value
COLD = StreamType.Cold.value


def arbitrary_stream(h, p, kinds=(HOT, COLD), name="s"):
    """A Stream in an ARBITRARY state (every stored attribute an independent symbol).

    Built with object.__new__ so that no repository code has run yet; the caller
    assumes the invariant it wants to start from."""
    s = object.__new__(Stream)
    s._name = name
    s._type = h.choice(f"{p}_kind", list(kinds))
    for a in ("_t_supply", "_t_target", "_dt_cont", "_heat_flow", "_htc", "_htr", "_price", "_CP", "_RCP_prod",
              "_t_min", "_t_max", "_t_min_star", "_t_max_star", "_ut_cost"):
        setattr(s, a, h.real(f"{p}{a}"))
    s._P_supply = s._P_target = s._h_supply = s._h_target = None
    s._is_process_stream = True
    s._active = True
    return s


def inv_stream_clauses(h, s):
    """INV_S: the stream invariant of property C19, clause by clause (name, formula)."""
    is_hot = s._type == HOT
    dt = s._dt_cont
    return [
        ("min_le_max", h.le(s._t_min, s._t_max)),
        ("bounds_are_supply_target", Or(And(h.eq(s._t_min, s._t_supply), h.eq(s._t_max, s._t_target)),
                                        And(h.eq(s._t_min, s._t_target), h.eq(s._t_max, s._t_supply)))),
        ("cp_times_span_is_duty", h.eq(s._CP * (s._t_max - s._t_min), s._heat_flow)),
        ("shift_follows_kind", And(h.eq(s._t_min_star, s._t_min - dt if is_hot else s._t_min + dt),
                                   h.eq(s._t_max_star, s._t_max - dt if is_hot else s._t_max + dt))),
        ("kind_matches_direction", (s._t_supply > s._t_target) if is_hot else (s._t_supply < s._t_target)),
        ("htr_is_reciprocal", h.eq(s._htr * s._htc, 1.0)),
    ]


def inv_stream(h, s):
    return And(*[c for _, c in inv_stream_clauses(h, s)])


# ---------------------------------------------------------------------------------------------
# Problem tables
# ---------------------------------------------------------------------------------------------
from OpenPinch.classes.problem_table import ProblemTable  # noqa: E402
from OpenPinch.lib.config import tol  # noqa: E402
from OpenPinch.lib.enums import ProblemTableLabel as PT  # noqa: E402


def table(h, n, cols, prefix="", strictly_descending=True, min_gap=None):
    """A ProblemTable of n rows whose listed columns are independent symbols (the rest is NaN).

    The real class is constructed with its own __init__; only the cell values are symbolic."""
    data = {PT.T.value: h.reals(f"{prefix}T", n)}
    for c in cols:
        data[c] = h.reals(f"{prefix}{c}_", n)
    T = data[PT.T.value]
    for i in range(n - 1):
        if min_gap is not None:
            h.assume(T[i] - T[i + 1] > min_gap)
        elif strictly_descending:
            h.assume(T[i] > T[i + 1])
    pt = ProblemTable({k: list(v) for k, v in data.items()})
    return pt, data


def col(pt, name):
    return list(pt.col[name])
