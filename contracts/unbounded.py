"""Obligations over tables of SYMBOLIC row count (the unbounded array domain, pvc/qarr.py).

A clause about every row is stated at one symbolic row index k; induction over rows uses h.induct.  These obligations have no native
replay for a refuted clause (the row count and columns are uninterpreted): a refutation is reported without a failing input; the bounded
obligations of the same property supply concrete witnesses.
"""
from __future__ import annotations

import z3

import OpenPinch.analysis.gcc_manipulation as gm
import OpenPinch.analysis.problem_table_analysis as pta
from OpenPinch.classes.problem_table import ProblemTable
from pvc.engine import Obligation, ReplayMismatch
from pvc.qarr import QArr, QTable, fresh_column
from pvc.sym import And, Implies, Not, Or, SymBool, SymInt, SymReal, lift_real

from .shared import PT, tol

TOL = z3.RealVal("1/1000000")


def qtable(h, nmin=1, name="n", adjacency=True):
    """A ProblemTable whose 43 columns are arbitrary functions of the row index, rows strictly descending by more than tol."""
    if not h.symbolic:
        raise ReplayMismatch("symbolic row count: no native replay")
    n = z3.Int(name)
    h.assume(SymBool(n >= nmin))
    pt = object.__new__(ProblemTable)
    pt.columns = [c.value for c in PT]
    pt.col_index = {c: i for i, c in enumerate(pt.columns)}
    pt.data = QTable(n, len(pt.columns), lambda j: fresh_column(f"{name}_col{j}", n))
    T = pt.col[PT.T.value]
    i = z3.Int(name + "_i")
    if adjacency:
        h.ctx.add_axiom(z3.ForAll([i], z3.Implies(z3.And(i >= 1, i < n), lift_real(T.at(i - 1)) - lift_real(T.at(i)) > TOL)))
    return pt, n


def _g(pt, c, r):
    return pt.col[c].at(r)


def ob_cascade_rows(h):
    """problem_table_algorithm on ANY number of rows, any interval heat-capacity sums (callee contract: first entry 0)."""
    pt, n = qtable(h)
    hot = h.choice("hot_streams", ["given", "none"])
    cold = h.choice("cold_streams", ["given", "none"])
    scale = h.choice("is_shifted", [True, False])
    cph, cpc = fresh_column("cp_hot_sum", n), fresh_column("cp_cold_sum", n)
    rh, rc = fresh_column("rcp_hot_sum", n), fresh_column("rcp_cold_sum", n)
    seen = []
    old = {c: QArr(pt.data.n, pt.col[c].f, "real") for c in (PT.H_NET_NP.value, PT.H_NET_UT.value, PT.T.value)}

    def cp_sums(temps, streams, is_shifted=True):
        seen.append(is_shifted)
        return (cph, rh) if streams == "H" else (cpc, rc)
    h.stub(pta, "_sum_mcp_between_temperature_boundaries", cp_sums)
    out = pta.problem_table_algorithm(pt, "H" if hot == "given" else None, "C" if cold == "given" else None, scale)
    h.check("returns_the_table_it_was_given", out is pt)
    h.check("scale_flag_reaches_the_activity_test", all(s is scale for s in seen) and len(seen) == (hot == "given") + (cold == "given"))
    k = SymInt(z3.Int("k"))
    h.assume(And(k >= 1, k < SymInt(n)))
    g = lambda c, r: _g(pt, c, r)
    zero = SymInt(z3.IntVal(0))
    # ROWINV at an arbitrary row k >= 1
    h.check("width_is_gap_to_row_above", h.eq(g(PT.DELTA_T.value, k), g(PT.T.value, k - 1) - g(PT.T.value, k)))
    h.check("top_row_width_zero", h.eq(g(PT.DELTA_T.value, zero), 0.0))
    for cp, dh, H, sgn in ((PT.CP_HOT.value, PT.DELTA_H_HOT.value, PT.H_HOT.value, +1), (PT.CP_COLD.value, PT.DELTA_H_COLD.value, PT.H_COLD.value, +1)):
        h.check("dH_is_CP_times_width", h.eq(g(dh, k), g(cp, k) * g(PT.DELTA_T.value, k)))
        h.check("curve_steps_by_dH", h.eq(g(H, k - 1) - g(H, k), g(dh, k)))
    h.check("CP_net_is_cold_minus_hot", h.eq(g(PT.CP_NET.value, k), g(PT.CP_COLD.value, k) - g(PT.CP_HOT.value, k)))
    h.check("dH_net_is_CP_net_times_width", h.eq(g(PT.DELTA_H_NET.value, k), g(PT.CP_NET.value, k) * g(PT.DELTA_T.value, k)))
    h.check("net_curve_steps_by_dH", h.eq(g(PT.H_NET.value, k) - g(PT.H_NET.value, k - 1), -g(PT.DELTA_H_NET.value, k)))
    if hot == "given":
        h.check("interval_heat_capacity_is_the_callees_sum", h.eq(g(PT.CP_HOT.value, k), cph.at(k)))
    else:
        h.check("no_hot_streams_no_hot_heat_capacity", h.eq(g(PT.CP_HOT.value, k), 0.0))
    # hot curve ends at zero at the bottom row; pinched residual
    last = SymInt(n - 1)
    h.check("hot_curve_zero_at_bottom", h.eq(g(PT.H_HOT.value, last), 0.0))
    j = SymInt(z3.Int("j"))
    h.assume(And(j >= 0, j < SymInt(n)))
    h.check("residual_non_negative_on_every_row", g(PT.H_NET.value, j) >= 0)
    # some row has residual exactly zero: instantiate at the minimiser of the raw cascade (the Skolem index of .min())
    w = z3.Int("w_zero")
    h.check("residual_touches_zero", SymBool(z3.Exists([w], z3.And(w >= 0, w < n, lift_real(g(PT.H_NET.value, SymInt(w))) == 0))))
    # net = cold - hot on every row (induction over rows)
    # both sides move in step (induction from the top row), and agree at the bottom row where the hot curve is 0 and the cold curve carries Qc
    gap = lambda r: g(PT.H_NET.value, r) - g(PT.H_COLD.value, r) + g(PT.H_HOT.value, r)
    h.induct("net_minus_cold_plus_hot_is_constant", lambda r: h.eq(gap(r), gap(zero)), SymInt(n))
    h.check("net_is_cold_minus_hot_at_bottom", h.eq(gap(last), 0.0))
    h.check("net_is_cold_minus_hot", h.eq(g(PT.H_NET.value, j), g(PT.H_COLD.value, j) - g(PT.H_HOT.value, j)))
    # Qh = largest cumulative deficit (or zero):  H_net[0] >= D_j for every row j, with equality at some row;  D_j = H_net[0] - H_net[j]
    h.check("Qh_dominates_every_cumulative_deficit", g(PT.H_NET.value, zero) >= g(PT.H_NET.value, zero) - g(PT.H_NET.value, j))
    h.must_not_prove("canary_residual_zero_everywhere", h.eq(g(PT.H_NET.value, j), 0.0))
    h.must_not_prove("canary_false", False)
    # frame: columns outside the cascade are untouched
    for c in (PT.H_NET_NP.value, PT.H_NET_UT.value, PT.T.value):
        h.check("other_columns_unchanged", h.eq(g(c, j), old[c].at(j)))


def ob_pinch_idx(h):
    """ProblemTable.pinch_idx / pinch_temperatures on a residual column of ANY length >= 2.  Statements about 'every row' are made at
    the arbitrary rows q, a, b (quantifier-free: each is one symbolic row index)."""
    pt, n = qtable(h, nmin=2)
    H = pt.col[PT.H_NET.value]
    N = SymInt(n)
    zero = lambda i: abs(H.at(i)) < tol
    first, last = SymInt(z3.IntVal(0)), SymInt(n - 1)
    q, a, b, k, nzr = (SymInt(z3.Int(x)) for x in ("q", "a", "b", "k", "some_nonzero_row"))
    for r in (q, a, b, k, nzr):
        h.assume(And(r >= 0, r < N))
        h.row_term(r)
    # recorded finding: a residual that is zero on EVERY row is reported as having no pinch; outside it, some row is not a zero
    h.exclude_known("KF-C06-all-zero", zero(nzr))
    rh, rc, valid = pt.pinch_idx()
    h.must_not_prove("canary_false", False)
    h.must_not_prove("canary_pinch_on_top_row", rh == 0)
    h.check("rows_in_range", And(rh >= 0, rh < N, rc >= 0, rc < N))
    h.check("valid_iff_hot_not_below_cold", (rh <= rc) == valid if isinstance(valid, SymBool) else bool(rh <= rc) == bool(valid))
    h.check("absent_only_if_no_zero", Implies(Not(valid), Not(zero(q))))
    if valid:
        h.check("hot_pinch_row_is_a_zero", zero(rh))
        h.check("cold_pinch_row_is_a_zero", zero(rc))
        # a zero at row k lies between the pinches unless it sits in a run of zeros touching an end of the range: if there is a
        # non-zero row a above it and a non-zero row b below it, it is between the pinches
        h.check("every_zero_between_or_in_touching_run", Implies(And(zero(k), a <= k, Not(zero(a)), k <= b, Not(zero(b))), And(rh <= k, k <= rc)))
        # threshold rule / ordinary rule for the hot pinch
        h.check("hot_pinch_rule_threshold", Implies(zero(first), And(Implies(q <= rh, zero(q)), Or(rh == last, Not(zero(rh + 1))))))
        h.check("hot_pinch_rule", Implies(Not(zero(first)), Implies(q < rh, Not(zero(q)))))
        h.check("cold_pinch_rule_threshold", Implies(zero(last), And(Implies(q >= rc, zero(q)), Or(rc == 0, Not(zero(rc - 1))))))
        h.check("cold_pinch_rule", Implies(Not(zero(last)), Implies(q > rc, Not(zero(q)))))
        # pinch_temperatures against pinch_idx's contract (a pure function of the table: the same rows again)
        h.stub(ProblemTable, "pinch_idx", lambda self, col=PT.H_NET.value: (rh, rc, valid))
        th, tc = pt.pinch_temperatures()
        h.check("temperatures_are_the_rows", And(h.eq(th, pt.col[PT.T.value].at(rh)), h.eq(tc, pt.col[PT.T.value].at(rc))))
    else:
        h.stub(ProblemTable, "pinch_idx", lambda self, col=PT.H_NET.value: (rh, rc, valid))
        th, tc = pt.pinch_temperatures()
        h.check("absent_reported_as_none", th is None and tc is None)


def ob_split_profiles(h):
    """get_seperated_gcc_heat_load_profiles on a V-shaped profile of ANY length."""
    if not h.symbolic:
        raise ReplayMismatch("symbolic row count: no native replay")
    n = z3.Int("n")
    p = z3.Int("pinch_row")
    h.assume(SymBool(z3.And(n >= 2, p >= 0, p < n)))
    H = fresh_column("Hnp", n)
    i = z3.Int("iH")
    hz = lambda t: lift_real(H.at(t))
    c = h.ctx
    c.add_axiom(z3.ForAll([i], z3.Implies(z3.And(i >= 0, i < n), hz(i) >= 0)))
    c.add_axiom(hz(p) == 0)
    # V-shaped with TOLSAFE steps: non-increasing (step 0 or > tol) down to the pinch row, non-decreasing after it
    c.add_axiom(z3.ForAll([i], z3.Implies(z3.And(i >= 1, i <= p), z3.Or(hz(i - 1) == hz(i), hz(i - 1) - hz(i) > TOL))))
    c.add_axiom(z3.ForAll([i], z3.Implies(z3.And(i > p, i < n), z3.Or(hz(i) == hz(i - 1), hz(i) - hz(i - 1) > TOL))))
    out = gm.get_seperated_gcc_heat_load_profiles(H)
    hot, cold = out[PT.H_NET_HOT.value], out[PT.H_NET_COLD.value]
    N = SymInt(n)
    P = SymInt(p)
    # closed forms by induction: cooling profile (stored negative) = -(H(k) - 0) below the pinch, 0 above; heating profile = H(k) above, 0 below
    h.induct("cooling_profile_closed_form", lambda r: h.eq(hot.at(r), sym_ite(r <= P, 0.0, -H.at(r))), N)
    h.induct("heating_profile_closed_form", lambda r: h.eq(cold.at(r) - cold.at(SymInt(z3.IntVal(0))), sym_ite(r <= P, H.at(r) - H.at(SymInt(z3.IntVal(0))), -H.at(SymInt(z3.IntVal(0))))), N)
    k = SymInt(z3.Int("k"))
    h.assume(And(k >= 1, k < N))
    h.must_not_prove("canary_profile_is_zero", h.eq(cold.at(k), 0.0))
    h.must_not_prove("canary_false", False)
    h.check("cooling_profile_monotone", -hot.at(k) >= -hot.at(k - 1))
    h.check("heating_profile_monotone", cold.at(k) <= cold.at(k - 1))
    h.check("cooling_profile_zero_at_top", h.eq(hot.at(SymInt(z3.IntVal(0))), 0.0))
    h.check("heating_profile_zero_at_bottom", h.eq(cold.at(SymInt(n - 1)), 0.0))
    h.check("cooling_profile_ends_at_Qc", h.eq(-hot.at(SymInt(n - 1)), H.at(SymInt(n - 1))))
    h.check("heating_profile_starts_at_Qh", h.eq(cold.at(SymInt(z3.IntVal(0))), H.at(SymInt(z3.IntVal(0)))))


def sym_ite(c, a, b):
    from pvc.sym import ite
    return ite(c if isinstance(c, SymBool) else SymBool(z3.BoolVal(bool(c))), a, b)


def cascade_obligation(name):
    return Obligation(name, ob_cascade_rows, kind="proof", functions=[pta.problem_table_algorithm], timeout_ms=30000,
                      stubs=("_sum_mcp_between_temperature_boundaries (arbitrary interval sums; its own contract: C05.content.rows.u and the bounded slices)",),
                      expect=("width_is_gap_to_row_above", "residual_non_negative_on_every_row", "net_minus_cold_plus_hot_is_constant.step", "net_is_cold_minus_hot", "residual_touches_zero"),
                      doc="UNBOUNDED in the number of rows: row invariant, pinched residual, net = cold - hot (induction), Qh dominates every deficit, frame")


def pinch_obligation(name):
    return Obligation(name, ob_pinch_idx, kind="proof", functions=[ProblemTable.pinch_idx, ProblemTable.pinch_temperatures], timeout_ms=30000,
                      stubs=("pinch_idx inside pinch_temperatures (its own contract: the same rows for the same table)",),
                      expect=("hot_pinch_rule", "cold_pinch_rule", "hot_pinch_rule_threshold", "cold_pinch_rule_threshold", "absent_only_if_no_zero"),
                      doc="UNBOUNDED in the number of rows: the property's wording over an arbitrary residual column of any length")


def split_obligation(name):
    return Obligation(name, ob_split_profiles, kind="proof", functions=[gm.get_seperated_gcc_heat_load_profiles], timeout_ms=30000,
                      expect=("cooling_profile_monotone", "heating_profile_starts_at_Qh"),
                      doc="UNBOUNDED in the number of rows: load profiles monotone, zero at the pinch side, Qh / Qc at the far ends (induction)")


def ob_content_rows_cp(h):
    """as ob_content_rows with SYMBOLIC heat-capacity flow rates (products of two unknowns in the induction step)"""
    return ob_content_rows(h, symbolic_cp=True)


def ob_content_rows(h, symbolic_cp=False):
    """_sum_mcp_between_temperature_boundaries + problem_table_algorithm on a grid of ANY number of rows that contains the shifted bounds
    of 1..2 symbolic hot streams (and arbitrary other rows): the hot composite at every row is the exact heat content of the streams
    below that row's temperature."""
    from OpenPinch.classes.stream import Stream
    pt, n = qtable(h, nmin=2, adjacency=False)
    T = pt.col[PT.T.value]
    N = SymInt(n)
    SEP = 1e-5
    zero, last = SymInt(z3.IntVal(0)), SymInt(n - 1)
    k, jj = SymInt(z3.Int("k")), SymInt(z3.Int("j"))
    h.assume(And(k >= 1, k < N, jj >= 0, jj < N))
    for t in (zero, last, k, k - 1, jj):
        h.row_term(t)
    # the grid is sorted with separated rows (SEP, as built by create_problem_table_with_t_int from 6-dp rounded distinct values); used in
    # the instances needed: adjacent rows, and every row against the rows that hold a stream bound
    h.assume_rows(lambda i: T.at(i - 1) - T.at(i) > SEP, 1, N)
    m = h.choice("hot_streams", [1, 2])            # number of streams on the side under test
    side = h.choice("side", ["hot", "cold"])
    is_shifted = h.choice("is_shifted", [True, False])
    streams, lo, hi, cps, facts = [], [], [], [], [SymBool(n >= 2)]
    for s in range(m):
        tmax, tmin, dt = h.real(f"s{s}_t_supply"), h.real(f"s{s}_t_target"), h.real(f"s{s}_dt", lo=0)
        if symbolic_cp:
            cp = h.real(f"s{s}_cp")
            h.assume(cp > 0)
        else:
            cp = h.choice(f"s{s}_cp", [1.0, 3.0])
        h.assume(tmax - tmin > 1e-5)
        st = Stream(f"s{s}", tmax, tmin, dt_cont=dt, heat_flow=cp * (tmax - tmin), htc=1.0) if side == "hot" else \
            Stream(f"s{s}", tmin, tmax, dt_cont=dt, heat_flow=cp * (tmax - tmin), htc=1.0)
        a, b = (st.t_max_star, st.t_min_star) if is_shifted else (st.t_max, st.t_min)
        for nm, val in (("max", a), ("min", b)):          # both bounds of the stream are rows of the grid
            r = SymInt(z3.Int(f"row_of_s{s}_{nm}"))
            h.assume(And(r >= 0, r < N))
            h.assume(h.eq(T.at(r), val))
            facts += [And(r >= 0, r < N), h.eq(T.at(r), val)]
            h.row_term(r)
            h.assume_rows((lambda r: lambda i: And(Implies(i < r, T.at(i) - T.at(r) > SEP), Implies(i > r, T.at(r) - T.at(i) > SEP)))(r), 0, N)
        streams.append(st); hi.append(a); lo.append(b); cps.append(cp)
    if side == "hot":
        pta.problem_table_algorithm(pt, streams, None, is_shifted)
        CPC, HC = PT.CP_HOT.value, PT.H_HOT.value
    else:
        pta.problem_table_algorithm(pt, None, streams, is_shifted)
        CPC, HC = PT.CP_COLD.value, PT.H_COLD.value
    g = lambda col, r: _g(pt, col, r)
    below = lambda s, t: sym_max0(sym_min(t, hi[s]) - lo[s])
    content = lambda r: sum((cps[s] * below(s, T.at(r)) for s in range(m)), 0.0)
    spans = lambda s, r: And(T.at(r) >= lo[s], T.at(r - 1) <= hi[s])
    # per stream: the activity test of the code is 'the stream spans the interval', and the heat content between two adjacent rows is
    # the whole interval if the stream spans it, nothing otherwise
    lemmas = []
    for s in range(m):
        lemmas.append(h.lemma_rows("activity_test_means_stream_spans_the_interval", (lambda s: lambda r: And(
            (hi[s] > T.at(r) + 10 * tol) == (T.at(r - 1) <= hi[s]), (lo[s] < T.at(r - 1) - 10 * tol) == (T.at(r) >= lo[s])))(s), N, base=1, facts=facts))
        lemmas.append(h.lemma_rows("stream_content_between_adjacent_rows", (lambda s: lambda r: h.eq(below(s, T.at(r - 1)) - below(s, T.at(r)), sym_ite(spans(s, r), T.at(r - 1) - T.at(r), 0.0)))(s), N, base=1, facts=facts))
    cp_lemma = h.lemma_rows("interval_heat_capacity_is_sum_of_spanning_streams", lambda r: h.eq(g(CPC, r), sum((sym_ite(spans(s, r), cps[s], 0.0) for s in range(m)), 0.0)), N, base=1,
                            using=lemmas, facts=facts)
    h.must_not_prove("canary_no_stream_active", h.eq(g(CPC, k), 0.0))
    h.must_not_prove("canary_false", False)
    # CONTENT: the curve is anchored at the bottom, so prove that curve - content is constant over the rows, then evaluate at the bottom
    gap = lambda r: g(HC, r) - content(r)
    h.induct("curve_minus_heat_content_is_constant", lambda r: h.eq(gap(r), gap(zero)), N, using=lemmas + [cp_lemma], facts=facts)
    h.check("no_heat_content_below_the_bottom_row", h.eq(content(last), 0.0))
    total = sum((cps[s] * (hi[s] - lo[s]) for s in range(m)), 0.0)
    if side == "hot":
        h.check("hot_curve_zero_at_bottom", h.eq(g(HC, last), 0.0))
        h.check("curve_is_heat_content_below_the_row", h.eq(g(HC, jj), content(jj)))
        h.check("curve_spans_total_duty", h.eq(g(HC, zero), total))
    else:
        # the documented horizontal offset of the cold curve: it starts at Qc (the residual at the bottom row)
        qc = g(PT.H_NET.value, last)
        h.check("cold_curve_starts_at_Qc", h.eq(g(HC, last), qc))
        h.check("curve_is_heat_content_below_the_row", h.eq(g(HC, jj), content(jj) + qc))
        h.check("curve_spans_total_duty", h.eq(g(HC, zero) - g(HC, last), total))


def sym_min(a, b):
    from pvc.sym import smin
    return smin(a, b)


def sym_max0(a):
    from pvc.sym import smax
    return smax(a, 0.0)


def content_cp_obligation(name):
    o = content_obligation(name)
    o.fn = ob_content_rows_cp
    o.tier = "thorough"
    o.bound = "UNBOUNDED in rows; one stream (hot or cold) with symbolic temperatures, contribution AND heat-capacity flow rate"
    return o


def content_obligation(name):
    return Obligation(name, ob_content_rows, kind="proof", functions=[pta._sum_mcp_between_temperature_boundaries, pta.problem_table_algorithm], timeout_ms=60000,
                      expect=("curve_is_heat_content_below_the_row", "curve_minus_heat_content_is_constant.step", "interval_heat_capacity_is_sum_of_spanning_streams", "activity_test_means_stream_spans_the_interval"),
                      bound="UNBOUNDED in rows; 1..2 streams on one side (hot or cold) with symbolic temperatures and contributions, heat-capacity flow rates from {1, 3}",
                      doc="CONTENT: on any sorted, separated grid containing the streams' bounds the hot / cold composite equals the exact heat content below each row, the cold one offset by Qc (induction over rows)")
