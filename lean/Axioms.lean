/-
Axioms.lean -- every ground axiom schema that /verif/pvc/sym.py (sym_exp, sym_log, sym_sqrt,
sym_pow, sym_round) and /verif/contracts/C20.py (ob_lmtd_upper) hand to the SMT solver about
the uninterpreted symbols exp, ln, sqrt, pow, rnd<k>, ongrid<k>, proved here as a theorem about
Real.exp, Real.log, Real.sqrt, Real.rpow and a decimal rounding function.

One theorem per `add_axiom` line; the comment above each theorem quotes that line.
Hypotheses named `hpath...` are NOT part of the emitted formula: they are the path condition
under which the code reaches the `add_axiom` call (sym_log only continues on the branch
`not (u <= 0)`, sym_sqrt on the branch `not (u < 0)`; the registered earlier arguments u0 of
ln were registered on the same path, hence are positive as well).

Check:  cd /opt/veriftools/mathlib4 && lake env lean /verif/lean/Axioms.lean
-/
import Mathlib.Analysis.SpecialFunctions.Log.Basic
import Mathlib.Analysis.SpecialFunctions.Log.Deriv
import Mathlib.Analysis.SpecialFunctions.Pow.Real
import Mathlib.Analysis.SpecialFunctions.Sqrt
import Mathlib.Algebra.Order.Round

namespace PvcAxioms

/-! ## sym_exp :  t real, e = exp t -/

/-- `e > 0` -/
theorem exp_pos_ax (t : ℝ) : Real.exp t > 0 := Real.exp_pos t

/-- `t == 0 -> e == 1` -/
theorem exp_zero_ax (t : ℝ) (h : t = 0) : Real.exp t = 1 := by
  subst h; exact Real.exp_zero

/-- `t > 0 -> e > 1` -/
theorem exp_gt_one_ax (t : ℝ) (h : t > 0) : Real.exp t > 1 := Real.one_lt_exp_iff.mpr h

/-- `t < 0 -> e < 1` -/
theorem exp_lt_one_ax (t : ℝ) (h : t < 0) : Real.exp t < 1 := Real.exp_lt_one_iff.mpr h

/-- `e >= 1 + t` -/
theorem exp_ge_one_add_ax (t : ℝ) : Real.exp t ≥ 1 + t := by
  have := Real.add_one_le_exp t
  linarith

/-- `ln(e) == t` -/
theorem log_exp_ax (t : ℝ) : Real.log (Real.exp t) = t := Real.log_exp t

/-- `t0 < t -> e0 < e`  (and, with the roles exchanged, `t < t0 -> e < e0`) -/
theorem exp_mono_ax (t0 t : ℝ) (h : t0 < t) : Real.exp t0 < Real.exp t := Real.exp_lt_exp.mpr h

/-- `t0 + t == 0 -> e0 * e == 1` -/
theorem exp_neg_mul_ax (t0 t : ℝ) (h : t0 + t = 0) : Real.exp t0 * Real.exp t = 1 := by
  rw [← Real.exp_add, h, Real.exp_zero]

/-! ## sym_log :  path condition u > 0, l = ln u -/

/-- `exp(l) == u` -/
theorem exp_log_ax (u : ℝ) (hpath : u > 0) : Real.exp (Real.log u) = u := Real.exp_log hpath

/-- `u == 1 -> l == 0` -/
theorem log_one_ax (u : ℝ) (h : u = 1) : Real.log u = 0 := by
  subst h; exact Real.log_one

/-- `u > 1 -> l > 0` -/
theorem log_pos_ax (u : ℝ) (h : u > 1) : Real.log u > 0 := Real.log_pos h

/-- `u < 1 -> l < 0`   (path: u > 0) -/
theorem log_neg_ax (u : ℝ) (hpath : u > 0) (h : u < 1) : Real.log u < 0 := Real.log_neg hpath h

/-- `l <= u - 1`   (path: u > 0) -/
theorem log_le_sub_one_ax (u : ℝ) (hpath : u > 0) : Real.log u ≤ u - 1 :=
  Real.log_le_sub_one_of_pos hpath

/-- `l * u >= u - 1`   (path: u > 0) -/
theorem log_mul_self_ge_ax (u : ℝ) (hpath : u > 0) : Real.log u * u ≥ u - 1 := by
  have h1 := Real.one_sub_inv_le_log_of_pos hpath
  have h2 := mul_le_mul_of_nonneg_right h1 hpath.le
  rw [sub_mul, inv_mul_cancel₀ hpath.ne', one_mul] at h2
  exact h2

/-- `u0 < u -> l0 < l`  (and, with the roles exchanged, `u < u0 -> l < l0`);
path: u0 > 0 and u > 0 -/
theorem log_mono_ax (u0 u : ℝ) (hpath0 : u0 > 0) (h : u0 < u) : Real.log u0 < Real.log u :=
  Real.log_lt_log hpath0 h

/-- `u0 * u == 1 -> l0 == -l` -/
theorem log_inv_ax (u0 u : ℝ) (h : u0 * u = 1) : Real.log u0 = -Real.log u := by
  have h1 : u0 = u⁻¹ := eq_inv_of_mul_eq_one_left h
  rw [h1, Real.log_inv]

/-- `u * e0 == 1 -> l == -t0`   where e0 = exp t0 -/
theorem log_inv_exp_ax (u t0 : ℝ) (h : u * Real.exp t0 = 1) : Real.log u = -t0 := by
  have h1 : u = (Real.exp t0)⁻¹ := eq_inv_of_mul_eq_one_left h
  rw [h1, Real.log_inv, Real.log_exp]

/-! ## sym_sqrt :  path condition u >= 0, s = sqrt u -/

/-- `s >= 0` -/
theorem sqrt_nonneg_ax (u : ℝ) : Real.sqrt u ≥ 0 := Real.sqrt_nonneg u

/-- `s * s == u`   (path: u >= 0) -/
theorem sqrt_sq_ax (u : ℝ) (hpath : u ≥ 0) : Real.sqrt u * Real.sqrt u = u :=
  Real.mul_self_sqrt hpath

/-! ## sym_pow :  p = pow(a, b) = a ^ b  (Real.rpow) -/

/-- `az > 0 -> p > 0` -/
theorem pow_pos_ax (a b : ℝ) (ha : a > 0) : a ^ b > 0 := Real.rpow_pos_of_pos ha b

/-- `az == 1 -> p == 1` -/
theorem pow_base_one_ax (a b : ℝ) (ha : a = 1) : a ^ b = 1 := by
  subst ha; exact Real.one_rpow b

/-- `az > 0 and bz == 0 -> p == 1` -/
theorem pow_exp_zero_ax (a b : ℝ) (_ha : a > 0) (hb : b = 0) : a ^ b = 1 := by
  subst hb; exact Real.rpow_zero a

/-- `bz == 1 -> p == az` -/
theorem pow_exp_one_ax (a b : ℝ) (hb : b = 1) : a ^ b = a := by
  subst hb; exact Real.rpow_one a

/-- `az > 1 and bz > 0 -> p > 1` -/
theorem pow_gt_one_ax (a b : ℝ) (ha : a > 1) (hb : b > 0) : a ^ b > 1 := Real.one_lt_rpow ha hb

/-- `az > 0 and az < 1 and bz > 0 -> p < 1` -/
theorem pow_lt_one_ax (a b : ℝ) (ha0 : a > 0) (ha1 : a < 1) (hb : b > 0) : a ^ b < 1 :=
  Real.rpow_lt_one ha0.le ha1 hb

/-- `b0 == bz and bz > 0 and a0 > 0 and az > 0 and a0 < az -> p0 < p`
(and, with the roles exchanged, `... az < a0 -> p < p0`) -/
theorem pow_mono_base_ax (a0 b0 a b : ℝ) (hbb : b0 = b) (hb : b > 0) (ha0 : a0 > 0) (_ha : a > 0)
    (h : a0 < a) : a0 ^ b0 < a ^ b := by
  subst hbb; exact Real.rpow_lt_rpow ha0.le h hb

/-- the exchanged instance, spelled out: `b0 == bz and bz > 0 and a0 > 0 and az > 0 and az < a0 -> p < p0` -/
theorem pow_mono_base_ax' (a0 b0 a b : ℝ) (hbb : b0 = b) (hb : b > 0) (_ha0 : a0 > 0) (ha : a > 0)
    (h : a < a0) : a ^ b < a0 ^ b0 := by
  subst hbb; exact Real.rpow_lt_rpow ha.le h hb

/-- `az == p0 and a0 > 0 and b0 * bz == 1 -> p == a0`   where p0 = pow(a0, b0), p = pow(az, bz) -/
theorem pow_pow_inv_ax (a0 b0 a b : ℝ) (ha : a = a0 ^ b0) (ha0 : a0 > 0) (hbb : b0 * b = 1) :
    a ^ b = a0 := by
  subst ha
  rw [← Real.rpow_mul ha0.le, hbb, Real.rpow_one]

/-- `az > 0 -> p > 0 and p*p*...*p (n factors) == az`   for p = pow(az, 1/n), n = 2..8 -/
theorem pow_root_ax (n : ℕ) (hn : 2 ≤ n) (a : ℝ) (ha : a > 0) :
    a ^ ((1 : ℝ) / n) > 0 ∧ (a ^ ((1 : ℝ) / n)) ^ n = a := by
  refine ⟨Real.rpow_pos_of_pos ha _, ?_⟩
  rw [one_div]
  exact Real.rpow_inv_natCast_pow ha.le (by omega)

/-- `az > 0 -> p > 0 and p*p*...*p (n factors) * az == 1`   for p = pow(az, -1/n), n = 2..8 -/
theorem pow_neg_root_ax (n : ℕ) (hn : 2 ≤ n) (a : ℝ) (ha : a > 0) :
    a ^ (-(1 : ℝ) / n) > 0 ∧ (a ^ (-(1 : ℝ) / n)) ^ n * a = 1 := by
  refine ⟨Real.rpow_pos_of_pos ha _, ?_⟩
  have hn0 : n ≠ 0 := by omega
  have h1 : (-(1 : ℝ) / n) = -((n : ℝ)⁻¹) := by rw [neg_div, one_div]
  rw [h1, Real.rpow_neg ha.le, inv_pow, Real.rpow_inv_natCast_pow ha.le hn0]
  exact inv_mul_cancel₀ ha.ne'

/-- the repeated product the code builds (`pn = p; for _ in range(n-1): pn = pn * p`) is `p ^ n` -/
def repMul (p : ℝ) : ℕ → ℝ
  | 0 => p
  | m + 1 => repMul p m * p

theorem repMul_eq_pow (p : ℝ) (m : ℕ) : repMul p m = p ^ (m + 1) := by
  induction m with
  | zero => simp [repMul]
  | succ m ih => rw [repMul, ih, pow_succ p (m + 1)]

/-- CAVEAT (not an axiom of the verifier, a remark on one): `pow_root_ax` is about the exponent `1/n`.
The term sym_pow actually builds has exponent `lift_real(b) = Fraction(repr(float(b)))`, which for
`b = 1/3` is the decimal `0.3333333333333333` (likewise 1/6, 1/7; 1/2, 1/4, 1/5, 1/8 are exact).
Read literally with that exponent the emitted formula `p*p*p == az` is false for Real.rpow: -/
theorem pow_root_decimal_literal_not_thm :
    ((2 : ℝ) ^ ((3333333333333333 : ℝ) / 10 ^ 16)) ^ 3 ≠ 2 := by
  intro h
  have h2 : ((2 : ℝ) ^ ((3333333333333333 : ℝ) / 10 ^ 16)) ^ 3
      = (2 : ℝ) ^ ((3333333333333333 : ℝ) / 10 ^ 16 * 3) := by
    rw [Real.rpow_mul (by norm_num)]
    exact (Real.rpow_natCast _ 3).symm
  have h3 : (2 : ℝ) ^ ((3333333333333333 : ℝ) / 10 ^ 16 * 3) < (2 : ℝ) ^ (1 : ℝ) :=
    Real.rpow_lt_rpow_of_exponent_lt (by norm_num) (by norm_num)
  rw [Real.rpow_one] at h3
  rw [h2] at h
  exact (ne_of_lt h3) h

/-! ## sym_round :  r = rnd<k>(x),  ghost predicate ongrid<k> -/

/-- rounding to `k` decimals -/
noncomputable def rnd (k : ℕ) (x : ℝ) : ℝ := (round (x * 10 ^ k) : ℝ) / 10 ^ k

/-- `x` is an integer multiple of `10^-k` -/
def ongrid (k : ℕ) (x : ℝ) : Prop := ∃ m : ℤ, x = (m : ℝ) / 10 ^ k

private theorem ten_pow_pos (k : ℕ) : (0 : ℝ) < 10 ^ k := by positivity

theorem rnd_abs_err_ax (k : ℕ) (x : ℝ) : |rnd k x - x| ≤ 5 / 10 ^ (k + 1) := by
  have hP := ten_pow_pos k
  have h1 : rnd k x - x = -(x * 10 ^ k - (round (x * 10 ^ k) : ℝ)) / 10 ^ k := by
    unfold rnd; field_simp; ring
  rw [h1, abs_div, abs_neg, abs_of_pos hP, div_le_div_iff₀ hP (ten_pow_pos (k + 1))]
  have h2 := abs_sub_round (x * 10 ^ k)
  have h3 : |x * 10 ^ k - (round (x * 10 ^ k) : ℝ)| * 10 ^ (k + 1) ≤ 1 / 2 * 10 ^ (k + 1) :=
    mul_le_mul_of_nonneg_right h2 (ten_pow_pos (k + 1)).le
  calc _ ≤ 1 / 2 * 10 ^ (k + 1) := h3
    _ = 5 * 10 ^ k := by rw [pow_succ]; ring

/-- `r - x <= 5/10^(k+1) and x - r <= 5/10^(k+1)` -/
theorem rnd_err_ax (k : ℕ) (x : ℝ) :
    rnd k x - x ≤ 5 / 10 ^ (k + 1) ∧ x - rnd k x ≤ 5 / 10 ^ (k + 1) := by
  have h := abs_le.mp (rnd_abs_err_ax k x)
  constructor <;> linarith [h.1, h.2]

/-- the same bound written as `1/2 * 10^(-k)` -/
theorem rnd_err_half_ax (k : ℕ) (x : ℝ) : |rnd k x - x| ≤ 1 / 2 * (10 : ℝ) ^ (-(k : ℤ)) := by
  have h := rnd_abs_err_ax k x
  have h2 : (5 : ℝ) / 10 ^ (k + 1) = 1 / 2 * (10 : ℝ) ^ (-(k : ℤ)) := by
    rw [zpow_neg, zpow_natCast, pow_succ]
    field_simp; ring
  rwa [h2] at h

/-- `ongrid(x) -> r == x` -/
theorem rnd_fix_ongrid_ax (k : ℕ) (x : ℝ) (h : ongrid k x) : rnd k x = x := by
  obtain ⟨m, rfl⟩ := h
  have hP := ten_pow_pos k
  unfold rnd
  rw [div_mul_cancel₀ _ hP.ne', round_intCast]

/-- `ongrid(r)` -/
theorem rnd_ongrid_ax (k : ℕ) (x : ℝ) : ongrid k (rnd k x) := ⟨round (x * 10 ^ k), rfl⟩

/-- `rnd(0) == 0` -/
theorem rnd_zero_ax (k : ℕ) : rnd k 0 = 0 := by
  unfold rnd; simp

/-- `ongrid(0)` -/
theorem ongrid_zero_ax (k : ℕ) : ongrid k 0 := ⟨0, by simp⟩

/-- `a0 <= x -> r0 <= r`  (and, with the roles exchanged, `x <= a0 -> r <= r0`) -/
theorem rnd_mono_ax (k : ℕ) (x y : ℝ) (h : x ≤ y) : rnd k x ≤ rnd k y := by
  have hP := ten_pow_pos k
  unfold rnd
  apply div_le_div_of_nonneg_right _ hP.le
  rw [round_eq, round_eq]
  exact_mod_cast Int.floor_le_floor (by nlinarith [mul_le_mul_of_nonneg_right h hP.le])

/-! ### the same five facts for ANY round-to-nearest, whatever its tie-breaking

`rnd` above breaks ties upwards (Mathlib's `round`); Python's `round(x, k)` breaks them to even.
The axioms do not depend on that choice: they hold for every function that returns a nearest
point of the `10^-k` grid. -/

/-- `r` returns, for every `x`, a grid point at least as near to `x` as every other grid point -/
def IsNearest (k : ℕ) (r : ℝ → ℝ) : Prop :=
  (∀ x, ongrid k (r x)) ∧ ∀ x g, ongrid k g → |r x - x| ≤ |g - x|

theorem rnd_isNearest (k : ℕ) : IsNearest k (rnd k) := by
  refine ⟨rnd_ongrid_ax k, ?_⟩
  rintro x g ⟨m, rfl⟩
  have hP := ten_pow_pos k
  have h := round_le (x * 10 ^ k) m
  have e1 : rnd k x - x = -(x * 10 ^ k - (round (x * 10 ^ k) : ℝ)) / 10 ^ k := by
    unfold rnd; field_simp; ring
  have e2 : (m : ℝ) / 10 ^ k - x = -(x * 10 ^ k - (m : ℝ)) / 10 ^ k := by
    field_simp; ring
  rw [e1, e2, abs_div, abs_div, abs_neg, abs_neg]
  exact div_le_div_of_nonneg_right h (abs_nonneg _)

theorem nearest_err_ax (k : ℕ) (r : ℝ → ℝ) (hr : IsNearest k r) (x : ℝ) :
    r x - x ≤ 5 / 10 ^ (k + 1) ∧ x - r x ≤ 5 / 10 ^ (k + 1) := by
  have h1 := (hr.2 x (rnd k x) (rnd_ongrid_ax k x)).trans (rnd_abs_err_ax k x)
  have h := abs_le.mp h1
  constructor <;> linarith [h.1, h.2]

theorem nearest_fix_ongrid_ax (k : ℕ) (r : ℝ → ℝ) (hr : IsNearest k r) (x : ℝ)
    (h : ongrid k x) : r x = x := by
  have h1 := hr.2 x x h
  rw [sub_self, abs_zero] at h1
  exact sub_eq_zero.mp (abs_eq_zero.mp (le_antisymm h1 (abs_nonneg _)))

theorem nearest_ongrid_ax (k : ℕ) (r : ℝ → ℝ) (hr : IsNearest k r) (x : ℝ) : ongrid k (r x) :=
  hr.1 x

theorem nearest_zero_ax (k : ℕ) (r : ℝ → ℝ) (hr : IsNearest k r) : r 0 = 0 :=
  nearest_fix_ongrid_ax k r hr 0 (ongrid_zero_ax k)

theorem nearest_mono_ax (k : ℕ) (r : ℝ → ℝ) (hr : IsNearest k r) (x y : ℝ) (h : x ≤ y) :
    r x ≤ r y := by
  by_contra hlt
  rw [not_le] at hlt
  have s1 : (r x - x) ^ 2 ≤ (r y - x) ^ 2 := sq_le_sq.mpr (hr.2 x (r y) (hr.1 y))
  have s2 : (r y - y) ^ 2 ≤ (r x - y) ^ 2 := sq_le_sq.mpr (hr.2 y (r x) (hr.1 x))
  -- s1: (r x - r y) * (r x + r y - 2 x) ≤ 0,  s2: (r x - r y) * (2 y - r x - r y) ≤ 0
  have t1 : r x + r y - 2 * x ≤ 0 := by
    by_contra hc
    rw [not_le] at hc
    nlinarith [mul_pos (sub_pos.mpr hlt) hc]
  have t2 : 2 * y - r x - r y ≤ 0 := by
    by_contra hc
    rw [not_le] at hc
    nlinarith [mul_pos (sub_pos.mpr hlt) hc]
  have hyx : y ≤ x := by linarith
  have hxy : x = y := le_antisymm h hyx
  rw [hxy] at hlt
  exact lt_irrefl _ hlt

/-! ## C20.ob_lmtd_upper : logarithmic mean <= arithmetic mean -/

theorem log_ge_two_mul_ax (u : ℝ) (hu : u ≥ 1) : Real.log u ≥ 2 * (u - 1) / (u + 1) := by
  have hu1 : 0 < u + 1 := by linarith
  have hx0 : 0 ≤ (u - 1) / (u + 1) := div_nonneg (by linarith) hu1.le
  have hx1 : (u - 1) / (u + 1) < 1 := by rw [div_lt_one hu1]; linarith
  have habs : |(u - 1) / (u + 1)| < 1 := by rw [abs_of_nonneg hx0]; exact hx1
  have hs := Real.hasSum_log_sub_log_of_abs_lt_one habs
  have hle := le_hasSum hs 0 (fun k _ => by positivity)
  have hlog : Real.log (1 + (u - 1) / (u + 1)) - Real.log (1 - (u - 1) / (u + 1)) = Real.log u := by
    rw [← Real.log_div (by linarith) (by linarith)]
    congr 1
    field_simp
    ring
  rw [hlog] at hle
  have h0 : (2 : ℝ) * (1 / (2 * ((0 : ℕ) : ℝ) + 1)) * ((u - 1) / (u + 1)) ^ (2 * 0 + 1)
      = 2 * (u - 1) / (u + 1) := by
    simp; ring
  rw [h0] at hle
  exact hle

/-- `u >= 1 -> ln(u) * (u + 1) >= 2 * (u - 1)` -/
theorem log_mean_upper_ax (u : ℝ) (hu : u ≥ 1) : Real.log u * (u + 1) ≥ 2 * (u - 1) := by
  have hu1 : 0 < u + 1 := by linarith
  have h := log_ge_two_mul_ax u hu
  rw [ge_iff_le, div_le_iff₀ hu1] at h
  exact h

/-- `u > 0 and u <= 1 -> ln(u) * (u + 1) <= 2 * (u - 1)` -/
theorem log_mean_lower_ax (u : ℝ) (hu0 : u > 0) (hu1 : u ≤ 1) :
    Real.log u * (u + 1) ≤ 2 * (u - 1) := by
  have hinv : u⁻¹ ≥ 1 := (one_le_inv₀ hu0).mpr hu1
  have h := log_mean_upper_ax u⁻¹ hinv
  rw [Real.log_inv] at h
  have h2 := mul_le_mul_of_nonneg_right h hu0.le
  have e1 : 2 * (u⁻¹ - 1) * u = 2 * (1 - u) := by
    rw [mul_assoc, sub_mul, inv_mul_cancel₀ hu0.ne', one_mul]
  have e2 : -Real.log u * (u⁻¹ + 1) * u = -Real.log u * (1 + u) := by
    rw [mul_assoc, add_mul, inv_mul_cancel₀ hu0.ne', one_mul]
  rw [e1, e2] at h2
  linarith

end PvcAxioms
