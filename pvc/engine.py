"""Obligations, the proof harness, path exploration, VC discharge and replay.

An *obligation* is a harness function ``ob(h)`` -- in the style of a Kani/CBMC proof
harness -- that

  1. creates the pre-state with ``h.real(..)``, ``h.choice(..)`` (symbolic, full domain),
  2. states the contract's precondition with ``h.assume(..)``,
  3. calls the REAL function object imported from /repo,
  4. states each postcondition clause with ``h.check(name, ..)``.

In *symbolic* mode the engine enumerates every path of the harness (re-execution
DSE); at every ``check`` it asks the solver whether ``path-condition AND axioms AND
NOT clause`` is satisfiable.  ``unsat`` on every path = clause discharged for all
inputs of the harness domain.  ``sat`` gives a candidate input which is *replayed*:
the very same harness is run again in *concrete* mode (plain floats, real numpy,
nothing substituted) and the clause is evaluated natively.  Only a reproduced
failure is a violation.
"""
from __future__ import annotations

import contextlib
import hashlib
import inspect
import json
import math
import os
import sys
import time
import traceback
from dataclasses import dataclass, field
from fractions import Fraction

import numpy as _np
import z3

from . import sym
from .npshim import BUILTIN_SHIMS, MATH, NP
from .sym import (Ctx, EngineError, PathAbort, SymBool, SymInt, SymReal, is_sym,
                  lift_real, to_z3_bool)

REPO = os.environ.get("PVC_REPO", "/repo")


class ReplayMismatch(Exception):
    """The candidate input does not satisfy the harness assumptions concretely."""


class CheckFailed(Exception):
    pass


# --------------------------------------------------------------------------------------
# Substitution of module globals in the repository's modules
# --------------------------------------------------------------------------------------


@contextlib.contextmanager
def substituted(prefix="OpenPinch", extra_builtins=()):
    """Replace the global names np / math (+ a few builtins) in every loaded repository module."""
    saved = []
    missing = object()
    for name, mod in list(sys.modules.items()):
        if mod is None or not (name == prefix or name.startswith(prefix + ".")):
            continue
        g = mod.__dict__
        if g.get("np") is _np:
            saved.append((g, "np", g["np"]))
            g["np"] = NP
        if g.get("math") is math:
            saved.append((g, "math", g["math"]))
            g["math"] = MATH
        for bname, shim in BUILTIN_SHIMS.items():
            if bname in g and g[bname] is not shim:
                continue  # module defines its own name; leave it
            if bname not in g:
                saved.append((g, bname, missing))
                g[bname] = shim
    _SUBST_STACK.append((saved, missing))
    try:
        yield
    finally:
        _SUBST_STACK.pop()
        for g, k, v in reversed(saved):
            if v is missing:
                g.pop(k, None)
            else:
                g[k] = v


_SUBST_STACK = []


@contextlib.contextmanager
def native():
    """Inside a symbolic run: execute a block on the real numpy / math (for wholly concrete sub-computations)."""
    if not _SUBST_STACK:
        yield
        return
    saved, missing = _SUBST_STACK[-1]
    current = [(g, k, g.get(k, missing)) for g, k, _ in saved]
    for g, k, v in saved:
        if v is missing:
            g.pop(k, None)
        else:
            g[k] = v
    try:
        yield
    finally:
        for g, k, v in current:
            if v is missing:
                g.pop(k, None)
            else:
                g[k] = v


# --------------------------------------------------------------------------------------
# Harness
# --------------------------------------------------------------------------------------


def _slack(a, b, rel=1e-9, abs_=1e-9):
    m = max(1.0, abs(float(a)), abs(float(b)))
    return rel * m + abs_ * 0


class Harness:
    """Interface offered to obligation functions (both modes)."""

    def __init__(self, mode, ctx=None, model=None, known_open=(), tier="quick", params=None):
        self.mode = mode            # 'sym' | 'concrete'
        self.ctx = ctx
        self.model = model or {}
        self.known_open = set(known_open)
        self.tier = tier
        self.params = params or {}
        self.results = []           # (name, status, model|None, info)
        self.inputs = {}            # name -> z3 const (sym) / value (concrete)
        self.failed_concrete = []   # names of checks failing in concrete mode
        self.covers = set()
        self.stubs_used = []
        self.ignore_exclusions = False
        self._patches = []
        pass

    # ---- facts about every row of a symbolic-length array ---------------------------------------
    def assume_rows(self, P, lo, hi):
        """for all rows lo <= i < hi: P(i) -- a precondition, or a fact already proved for every row"""
        if not self.symbolic:
            return
        z = lambda v: v.z if isinstance(v, SymInt) else (z3.IntVal(v) if isinstance(v, int) else v)
        self.ctx.add_row_axiom(lambda t: to_z3_bool(P(SymInt(t))), z(lo), z(hi))

    def row_term(self, t):
        """register a row index term: the quantifier-free twin of the path solver instantiates every row axiom at it"""
        if self.symbolic:
            self.ctx.register_row_term(t.z if isinstance(t, SymInt) else (z3.IntVal(t) if isinstance(t, int) else t))
        return t

    def _prove_scoped(self, hyps, goal, timeout_ms, facts=None):
        """unsat / sat / unknown for  path & hyps => goal : quantifier-free twin first (fast, and complete for the instances at hand),
        then the quantified path solver -- a 'sat' of the twin alone proves nothing and is never reported"""
        c = self.ctx
        t0 = time.time()
        out = "unknown"
        if facts is not None:
            # smallest query first: a fresh solver that sees only the hypotheses and the listed path facts (each of which is checked to
            # hold on the path), nothing else of the path
            ok = []
            for f in facts:
                fz = to_z3_bool(f)
                if any(fz.eq(a) for a in c.pc) or self._established(fz):
                    ok.append(fz)
            m = z3.Solver()
            m.set("timeout", timeout_ms)
            for f in list(hyps) + ok:
                m.add(f)
            m.add(z3.Not(goal))
            r = m.check()
            c.queries += 1
            if r == z3.unsat:
                c.solver_s += time.time() - t0
                return "unsat", time.time() - t0
        solvers = ([c.qf] if c.has_quant else []) + [c.solver]
        for s in solvers:
            s.push()
            for f in hyps:
                s.add(f)
            s.add(z3.Not(goal))
            s.set("timeout", timeout_ms)
            r = s.check()
            c.queries += 1
            s.pop()
            s.set("timeout", 3000)
            if r == z3.unsat:
                out = "unsat"
                break
            if s is c.solver:
                out = "sat" if r == z3.sat else "unknown"
        c.solver_s += time.time() - t0
        return out, time.time() - t0

    # ---- inputs ---------------------------------------------------------------------
    @property
    def symbolic(self):
        return self.mode == "sym"

    def real(self, name, lo=None, hi=None, grid=None):
        if self.symbolic:
            z = z3.Real(name)
            self.inputs[name] = z
            v = SymReal(z)
            if lo is not None:
                self.ctx.assume(v >= lo)
            if hi is not None:
                self.ctx.assume(v <= hi)
            if grid is not None:
                self.ctx.assume(sym.ongrid(v, grid))
            return v
        v = float(self.model.get(name, 0.0))
        if grid is not None:
            v = round(v, grid)
        self.inputs[name] = v
        if lo is not None and v < lo:
            raise ReplayMismatch(f"{name}={v} < {lo}")
        if hi is not None and v > hi:
            raise ReplayMismatch(f"{name}={v} > {hi}")
        return v

    def reals(self, prefix, n, **kw):
        return [self.real(f"{prefix}{i}", **kw) for i in range(n)]

    def boolean(self, name):
        if self.symbolic:
            z = z3.Bool(name)
            self.inputs[name] = z
            return bool(SymBool(z))
        v = bool(self.model.get(name, False))
        self.inputs[name] = v
        return v

    def choice(self, name, options):
        """Pick one of ``options`` (every option is explored)."""
        options = list(options)
        if self.symbolic:
            z = z3.Int(name)
            self.inputs[name] = z
            allowed = list(range(len(options)))
            fix = self.params.get("fix", {}).get(name)
            if fix is not None:
                # this obligation instance covers only part of the choice (the work is split over processes)
                allowed = [options.index(v) for v in fix if v in options]
                if not allowed:
                    raise PathAbort()
            self.ctx.assume(z3.Or(*[z == i for i in allowed]))
            for i in allowed[:-1]:
                if self.ctx.decide(z == i):
                    return options[i]
            return options[allowed[-1]]
        i = int(self.model.get(name, 0))
        self.inputs[name] = i
        if not (0 <= i < len(options)):
            raise ReplayMismatch(f"choice {name}={i}")
        return options[i]

    def integer(self, name, lo, hi):
        return self.choice(name, list(range(lo, hi + 1)))

    # ---- assumptions / checks -----------------------------------------------------------
    def assume(self, cond):
        if self.symbolic:
            if isinstance(cond, (bool, _np.bool_)):
                if not cond:
                    raise PathAbort()
                return
            self.ctx.assume(cond)
            if self.ctx._check() == z3.unsat:
                raise PathAbort()
        else:
            if not bool(cond):
                raise ReplayMismatch("assumption false on concrete input")

    def ongrid_mode(self, digits=6):
        """ONGRID: all inputs are multiples of 10**-digits and the grid is closed under + and -, so rounding to
        `digits` or more places is the identity on every value the code rounds (assumption, stated in the evidence)."""
        if self.symbolic:
            self.ctx.ongrid_digits = digits

    def exclude_known(self, finding_id, cond):
        """Leave a recorded finding's region out of this obligation (only while it is listed as open)."""
        if finding_id in self.known_open and not self.ignore_exclusions:
            try:
                self.assume(sym.Not(cond))
            except PathAbort:
                self.excluded_by = finding_id          # the whole path lies inside the recorded finding's region
                raise

    def cover(self, name):
        self.covers.add(name)

    def check(self, name, cond, note=None, opaque=()):
        """Obligation clause.  ``opaque``: sub-terms to generalise to fresh symbols first (a proof that does
        not need a definition should not see it); falls back to the full query when that is not enough."""
        if self.symbolic:
            if opaque and self._check_opaque(name, cond, opaque):
                return
            self._check_sym(name, cond, note)
        else:
            ok = bool(cond)
            self.results.append((name, "ok" if ok else "failed", None, note))
            if not ok:
                self.failed_concrete.append(name)

    def _established(self, fz):
        c = self.ctx
        for s in ([c.qf] if c.has_quant else []) + [c.solver]:
            s.push()
            s.add(z3.Not(fz))
            s.set("timeout", 3000)
            r = s.check()
            s.pop()
            if r == z3.unsat:
                return True
        return False

    def lemma_rows(self, name, P, n, base=0, using=(), facts=None):
        """Row lemma: proves P(k) for a FRESH index k with base <= k < n (hence for every row), records it as a row axiom and returns it
        for use in `induct(using=...)`; returns None when the proof does not go through (the clause is then recorded as not discharged)."""
        if not self.symbolic:
            return None
        c = self.ctx
        nz = n.z if isinstance(n, SymInt) else z3.IntVal(int(n))
        k = z3.Int(c.fresh_name("lem"))
        goal = to_z3_bool(P(SymInt(k)))
        hyps = [z3.And(k >= base, k < nz)] + c.row_instances([k, k - 1]) + [to_z3_bool(lem[0](SymInt(k))) for lem in using if lem is not None]
        r, dt = self._prove_scoped(hyps, goal, c.timeout_ms, facts)
        self.results.append((name, "discharged" if r == "unsat" else r, None, f"{dt:.3f}s"))
        if r == "unsat":
            self.assume_rows(P, base, nz)
            return (P, base)
        return None

    def induct(self, name, P, n, base=0, using=(), facts=None):
        """Induction over a symbolic row index: proves P(base) and, for a fresh k with base < k < n, P(k-1) => P(k) (row lemmas in `using`
        instantiated at k); when both are discharged, 'for all base <= k < n: P(k)' becomes a row axiom of the path."""
        if not self.symbolic:
            return
        c = self.ctx
        nz = n.z if isinstance(n, SymInt) else z3.IntVal(int(n))
        before = len(self.results)
        self._check_sym(name + ".base", sym.Implies(SymBool(nz > base), P(SymInt(z3.IntVal(base)))), None)
        k = z3.Int(c.fresh_name("ind"))
        hyps = [z3.And(k > base, k < nz), to_z3_bool(P(SymInt(k - 1)))] + c.row_instances([k, k - 1]) + [to_z3_bool(lem[0](SymInt(k))) for lem in using if lem is not None]
        r, dt = self._prove_scoped(hyps, to_z3_bool(P(SymInt(k))), c.timeout_ms, facts)
        self.results.append((name + ".step", "discharged" if r == "unsat" else r, None, f"{dt:.3f}s"))
        if all(x[1] == "discharged" for x in self.results[before:]):
            self.assume_rows(P, base, nz)

    def must_not_prove(self, name, cond):
        """Vacuity canary: `cond` is NOT a consequence of the code's behaviour, so a solver that proves it on this path is working from
        contradictory assumptions (symbolic mode only).  Proved => the obligation is reported undecided (vacuous), never as held."""
        if not self.symbolic:
            return
        c = self.ctx
        s = c.solver
        s.push()
        s.set("timeout", min(c.timeout_ms, 2000))
        s.add(z3.Not(to_z3_bool(cond)))
        t0 = time.time()
        r = s.check()
        c.queries += 1
        c.solver_s += time.time() - t0
        s.pop()
        s.set("timeout", 3000)
        if r == z3.unsat:
            self.results.append((name, "unknown", None, "VACUOUS: the path assumptions prove a claim that is false in general"))
        else:
            self.results.append((name, "discharged", None, f"canary not provable ({r})"))

    def derive(self, name, goal, from_, opaque=()):
        """Explicit proof step: `goal` follows from the listed facts ALONE (each of which must already hold on this path),
        with the `opaque` sub-terms generalised to fresh symbols.  Keeps the query independent of the rest of the path."""
        if not self.symbolic:
            self.check(name, goal)
            return
        c = self.ctx
        known = getattr(self, "_derived", None)
        if known is None:
            known = self._derived = {}      # ast id -> ast (holding the ast keeps its id from being reused)
        for k, f in enumerate(from_):
            fz = to_z3_bool(f)
            if fz.get_id() in known or z3.is_true(z3.simplify(fz)):
                continue
            c.solver.push()
            c.solver.add(z3.Not(fz))
            r = c.solver.check()
            c.solver.pop()
            if r != z3.unsat:
                self.results.append((name, "unknown", None, f"premise {k} of the derivation is not established on this path"))
                return
        subs = [(lift_real(t), z3.Real(c.fresh_name(f"opaque{i}"))) for i, t in enumerate(opaque)]
        s = z3.Solver()
        s.set("timeout", c.timeout_ms)
        for f in from_:
            s.add(z3.substitute(to_z3_bool(f), *subs) if subs else to_z3_bool(f))
        g = to_z3_bool(goal)
        s.add(z3.substitute(z3.Not(g), *subs) if subs else z3.Not(g))
        t0 = time.time()
        r = s.check()
        c.queries += 1
        c.solver_s += time.time() - t0
        how = "z3"
        if r != z3.unsat:
            # the derivation is a small self-contained query: give it to cvc5 as well before falling back to the full path query
            try:
                if _cvc5_check(s.to_smt2(), c.timeout_ms) == "unsat":
                    r, how = z3.unsat, "cvc5"
            except Exception:
                pass
        if r == z3.unsat:
            # the derived fact is remembered for later derivations but NOT pushed into the path solver
            self.results.append((name, "discharged", None, f"{time.time() - t0:.3f}s" if how == "z3" else "cvc5/alt"))
            known[g.get_id()] = g
        else:
            self._check_sym(name, goal, None)
            if self.results and self.results[-1][0] == name and self.results[-1][1] == "discharged":
                known[g.get_id()] = g

    def _check_opaque(self, name, cond, opaque):
        c = self.ctx
        goal = to_z3_bool(cond)
        subs = []
        for i, t in enumerate(opaque):
            tz = lift_real(t)
            subs.append((tz, z3.Real(c.fresh_name(f"opaque{i}"))))
        s = z3.Solver()
        s.set("timeout", c.timeout_ms)
        for f in c.solver.assertions():
            g = z3.substitute(f, *subs)
            if _is_linear(g):      # hypotheses that stay non-linear are dropped (sound: fewer hypotheses)
                s.add(g)
        s.add(z3.substitute(z3.Not(goal), *subs))
        t0 = time.time()
        r = s.check()
        c.queries += 1
        c.solver_s += time.time() - t0
        if r == z3.unsat:
            self.results.append((name, "discharged", None, f"{time.time() - t0:.3f}s"))
            c.assume(goal)
            return True
        return False

    def _check_sym(self, name, cond, note):
        c = self.ctx
        if isinstance(cond, (bool, _np.bool_)):
            if cond:
                self.results.append((name, "discharged", None, "trivial"))
                return
            goal = z3.BoolVal(False)
        else:
            goal = to_z3_bool(cond)
        if c.has_quant:
            q = c.qf
            q.push()
            q.set("timeout", c.timeout_ms)
            q.add(z3.Not(goal))
            t0 = time.time()
            rq = q.check()
            c.queries += 1
            c.solver_s += time.time() - t0
            q.pop()
            if rq == z3.unsat:
                self.results.append((name, "discharged", None, f"{time.time() - t0:.3f}s"))
                c.assume(goal)
                return
        s = c.solver
        s.push()
        s.set("timeout", c.timeout_ms)
        s.add(z3.Not(goal))
        t0 = time.time()
        r = s.check()
        dt = time.time() - t0
        c.queries += 1
        c.solver_s += dt
        model = None
        if r == z3.sat:
            model = self._extract_model(s.model())
        reason = s.reason_unknown() if r == z3.unknown else None
        s.pop()
        s.set("timeout", 3000)
        if r == z3.unsat:
            self.results.append((name, "discharged", None, f"{dt:.3f}s"))
            c.assume(goal)
        elif r == z3.sat:
            self.results.append((name, "sat", model, note))
        else:
            if os.environ.get("PVC_DEBUG"):
                print(f"[pvc] unknown: {name} reason={reason} dt={dt:.1f}s inputs={ {k: None for k in list(self.inputs)[:0]} } trail={c.trail}", flush=True)
                with open(f"/tmp/pvc_unknown_{name}.smt2", "w") as f:
                    s2 = z3.Solver(); s2.add(c.solver.assertions()); s2.add(z3.Not(goal)); f.write(s2.to_smt2())
            r2 = _second_opinion(c, goal)
            if r2 == "unsat":
                self.results.append((name, "discharged", None, "cvc5/alt"))
                c.assume(goal)
            else:
                self.results.append((name, "unknown", None, reason))

    def _extract_model(self, m):
        out = {}
        for name, z in self.inputs.items():
            v = m.eval(z, model_completion=True)
            if z3.is_int_value(v):
                out[name] = v.as_long()
            elif z3.is_rational_value(v):
                out[name] = float(Fraction(v.numerator_as_long(), v.denominator_as_long()))
            elif z3.is_algebraic_value(v):
                a = v.approx(20)
                out[name] = float(Fraction(a.numerator_as_long(), a.denominator_as_long()))
            elif z3.is_true(v) or z3.is_false(v):
                out[name] = z3.is_true(v)
            else:
                out[name] = str(v)
        return out

    # ---- comparison helpers (exact over the reals; with float slack when replaying) ---
    def eq(self, a, b, tol=0.0):
        if self.symbolic or is_sym(a) or is_sym(b):
            if tol:
                return sym.And(a - b <= tol, b - a <= tol)
            r = (a == b)
            return r
        if isinstance(a, float) and isinstance(b, float) and a != a and b != b:
            return True
        return abs(a - b) <= tol + 1e-9 * max(1.0, abs(a), abs(b))

    def le(self, a, b, tol=0.0):
        if self.symbolic or is_sym(a) or is_sym(b):
            return a <= b + tol
        return a <= b + tol + 1e-9 * max(1.0, abs(a), abs(b))

    def ge(self, a, b, tol=0.0):
        return self.le(b, a, tol)

    def lt(self, a, b):
        if self.symbolic or is_sym(a) or is_sym(b):
            return a < b
        return a < b - 1e-9 * max(1.0, abs(a), abs(b)) or a < b

    def isnan(self, x):
        return (not is_sym(x)) and isinstance(x, (float, _np.floating)) and x != x

    # ---- stubs (modular calls) --------------------------------------------------------
    def stub(self, module, name, replacement):
        """Replace ``module.name`` for the rest of this path/run (restored afterwards).

        Only in symbolic mode: a replay always runs the real callee."""
        if not self.symbolic:
            return
        old = getattr(module, name)
        setattr(module, name, replacement)
        self._patches.append((module, name, old))
        self.stubs_used.append(f"{module.__name__}.{name}")

    def _restore(self):
        for module, name, old in reversed(self._patches):
            setattr(module, name, old)
        self._patches.clear()

    def pure_function(self, name, arity):
        """Assumed contract 'the callee is a pure real function of its arguments' (an uninterpreted function)."""
        f = z3.Function(name, *([z3.RealSort()] * (arity + 1)))

        def call(*args):
            return SymReal(f(*[lift_real(a) for a in args[:arity]]))
        return call

    def fresh_real(self, base="havoc"):
        if self.symbolic:
            return self.ctx.fresh_real(base)
        raise ReplayMismatch("havoc value has no concrete counterpart")


def _is_linear(e, _cache=None):
    """No product of two non-numeral terms, no division by a non-numeral, no uninterpreted application of such."""
    if _cache is None:
        _cache = {}
    k = e.get_id()
    if k in _cache:
        return _cache[k]
    ok = True
    if z3.is_app(e):
        kind = e.decl().kind()
        ch = e.children()
        if kind == z3.Z3_OP_MUL:
            if sum(0 if z3.is_rational_value(c) or z3.is_int_value(c) else 1 for c in ch) > 1:
                ok = False
        elif kind in (z3.Z3_OP_DIV, z3.Z3_OP_IDIV):
            if not (z3.is_rational_value(ch[1]) or z3.is_int_value(ch[1])):
                ok = False
        elif kind == z3.Z3_OP_POWER:
            ok = False
        if ok:
            for c in ch:
                if not _is_linear(c, _cache):
                    ok = False
                    break
    _cache[k] = ok
    return ok


def _second_opinion(c, goal):
    """Retry an unknown VC with a fresh z3 using a different configuration, then cvc5 via SMT-LIB."""
    try:
        s = z3.SolverFor("QF_UFNRA") if False else z3.Solver()
        s.set("timeout", c.timeout_ms)
        for f in c.pc:
            s.add(f)
        for f in c.axioms:
            s.add(f)
        s.add(z3.Not(goal))
        t = z3.Then("simplify", "solve-eqs", "smt")
        s2 = t.solver()
        s2.set("timeout", c.timeout_ms)
        s2.add(s.assertions())
        t0 = time.time()
        r = s2.check()
        c.solver_s += time.time() - t0
        c.queries += 1
        if r == z3.unsat:
            return "unsat"
        r = _cvc5_check(s.to_smt2(), c.timeout_ms)
        return r
    except Exception:
        return "unknown"


def _cvc5_check(smt2, timeout_ms):
    import subprocess
    import tempfile
    exe = "/usr/bin/cvc5"
    if not os.path.exists(exe):
        return "unknown"
    with tempfile.NamedTemporaryFile("w", suffix=".smt2", delete=False) as f:
        f.write("(set-logic ALL)\n" + smt2)
        path = f.name
    try:
        p = subprocess.run([exe, f"--tlimit={timeout_ms}", path], capture_output=True, text=True, timeout=timeout_ms / 1000 + 5)
        out = p.stdout.strip().splitlines()
        return out[0] if out and out[0] in ("sat", "unsat") else "unknown"
    except Exception:
        return "unknown"
    finally:
        os.unlink(path)


# --------------------------------------------------------------------------------------
# Obligation
# --------------------------------------------------------------------------------------


@dataclass
class Obligation:
    name: str
    fn: object                       # harness function(h)
    kind: str = "proof"              # proof | bounded | lemma | frame | smallscope | deps | lean
    functions: list = field(default_factory=list)   # real function objects under contract
    bound: str | None = None
    tier: str = "quick"              # minimum tier at which it runs
    max_paths: int = 4000
    time_budget_s: float = 0.0       # wall-clock budget for the exploration (0 = tier default)
    timeout_ms: int = 20000
    expect: tuple = ()               # clause names that must be evaluated on at least one path
    params: dict = field(default_factory=dict)
    doc: str = ""
    runner: object = None            # custom runner(ob, env) -> result dict (non-symbolic back ends)
    stubs: tuple = ()
    assumptions: tuple = ()

    @property
    def prop(self):
        return self.name.split(".")[0]


def split(ob: "Obligation", **axes):
    """Split one obligation into independent instances, one per combination of the given choice values
    (each instance runs in its own process; together they cover exactly the original harness)."""
    import itertools
    names = list(axes)
    out = []
    for combo in itertools.product(*[axes[n] for n in names]):
        fix = {n: (list(v) if isinstance(v, (list, tuple)) else [v]) for n, v in zip(names, combo)}
        tag = ",".join(f"{n}={'|'.join(map(str, fix[n]))}" for n in names)
        params = dict(ob.params)
        params["fix"] = {**params.get("fix", {}), **fix}
        out.append(Obligation(name=f"{ob.name}[{tag}]", fn=ob.fn, kind=ob.kind, functions=ob.functions, bound=(ob.bound or "") + f" [{tag}]",
                              tier=ob.tier, max_paths=ob.max_paths, timeout_ms=ob.timeout_ms, time_budget_s=ob.time_budget_s, expect=(), params=params, doc=ob.doc,
                              runner=ob.runner, stubs=ob.stubs, assumptions=ob.assumptions))
    return out


def fn_info(f):
    try:
        f0 = inspect.unwrap(f)
        if isinstance(f0, property):
            f0 = f0.fget
        src = inspect.getsource(f0)
        lines = inspect.getsourcelines(f0)
        file = inspect.getsourcefile(f0)
        return {
            "function": getattr(f0, "__qualname__", str(f0)),
            "file": os.path.relpath(file, REPO) if file else None,
            "lines": [lines[1], lines[1] + len(lines[0]) - 1],
            "sha256": hashlib.sha256(src.encode()).hexdigest()[:16],
        }
    except Exception as e:  # pragma: no cover
        return {"function": repr(f), "error": str(e)}


def explore(ob: Obligation, known_open=(), tier="quick"):
    """Enumerate every path of the harness in symbolic mode."""
    worklist = [[]]
    paths = 0
    agg = {}            # check name -> dict(status counts, first failing model)
    exceptions = []     # (exc type, message, model, trail)
    stats = {"queries": 0, "solver_s": 0.0, "unknown_feas": 0, "decisions": 0, "aborted": 0}
    covers = set()
    stubs = set()
    t_start = time.time()
    budget_hit = False
    budget_s = ob.time_budget_s or float(os.environ.get("PVC_TIME_BUDGET_S", "0") or 0) or (420.0 if tier == "quick" else 3000.0)
    while worklist:
        if paths >= ob.max_paths or time.time() - t_start > budget_s:
            budget_hit = True
            break
        prefix = worklist.pop()
        c = Ctx(prefix, timeout_ms=ob.timeout_ms)
        h = Harness("sym", ctx=c, known_open=known_open, tier=tier, params=ob.params)
        Ctx.current = c
        exc = None
        try:
            with substituted():
                try:
                    ob.fn(h)
                finally:
                    h._restore()
        except PathAbort:
            stats["aborted"] += 1
            if getattr(h, "excluded_by", None):
                stats["inside_known_finding"] = stats.get("inside_known_finding", 0) + 1
            exc = "abort"
        except EngineError as e:
            exc = ("engine", f"{type(e).__name__}: {e}", traceback.format_exc(limit=6))
        except RecursionError as e:
            exc = ("engine", f"RecursionError: {e}", "")
        except Exception as e:  # an exception escaping the harness = implicit obligation 'no_exception'
            exc = ("raise", type(e).__name__, str(e), traceback.format_exc(limit=8))
        finally:
            Ctx.current = None
        worklist.extend(c.pending)
        stats["queries"] += c.queries
        stats["solver_s"] += c.solver_s
        stats["unknown_feas"] += c.unknown_feas
        stats["decisions"] += c.n_decisions
        covers |= h.covers
        stubs |= set(h.stubs_used)
        if exc != "abort":
            paths += 1
        # clauses evaluated before an abort were evaluated on a feasible prefix of the path: they count (a failed check followed by
        # an assumption that empties the path must not disappear with it)
        for (name, status, model, info) in h.results:
            a = agg.setdefault(name, {"discharged": 0, "sat": 0, "unknown": 0, "models": [], "info": []})
            a[status] = a.get(status, 0) + 1
            if status == "sat" and len(a["models"]) < 8:
                a["models"].append(model)
            if status == "unknown" and len(a["info"]) < 3:
                a["info"].append(str(info))
            if status == "discharged" and isinstance(info, str) and info.endswith("s") and info[:-1].replace(".", "").isdigit():
                a["max_s"] = max(a.get("max_s", 0.0), float(info[:-1]))
        if exc == "abort":
            continue
        if exc is not None:
            if exc[0] == "engine":
                a = agg.setdefault("@engine", {"discharged": 0, "sat": 0, "unknown": 0, "models": [], "info": []})
                a["unknown"] += 1
                if len(a["info"]) < 3:
                    a["info"].append(exc[1] + "\n" + exc[2])
            else:
                # model of the path condition = candidate input raising the exception
                model = None
                s = c.solver
                s.set("timeout", ob.timeout_ms)
                feas = s.check()
                a = agg.setdefault("no_exception", {"discharged": 0, "sat": 0, "unknown": 0, "models": [], "info": []})
                if feas == z3.sat:
                    model = h._extract_model(s.model())
                    a["sat"] += 1
                    if len(a["models"]) < 8:
                        a["models"].append(model)
                elif feas == z3.unsat:
                    # the path was only entered because a feasibility query timed out; it is in fact infeasible
                    a["discharged"] += 1
                else:
                    a["unknown"] += 1      # feasibility of the raising path not established: undecided, never a violation
                if feas != z3.unsat and len(a["info"]) < 3:
                    a["info"].append(f"{exc[1]}: {exc[2]}\n{exc[3]}")
        else:
            a = agg.setdefault("no_exception", {"discharged": 0, "sat": 0, "unknown": 0, "models": [], "info": []})
            a["discharged"] += 1
    stats["paths"] = paths
    stats["wall_s"] = time.time() - t_start
    stats["budget_hit"] = budget_hit
    return agg, stats, covers, stubs


def replay_concrete(ob: Obligation, model, known_open=(), tier="quick", ignore_exclusions=False):
    """Run the harness natively on the candidate input.  Returns (status, failing names, detail)."""
    h = Harness("concrete", model=model, known_open=known_open, tier=tier, params=ob.params)
    h.ignore_exclusions = ignore_exclusions
    try:
        try:
            ob.fn(h)
        finally:
            h._restore()
    except ReplayMismatch as e:
        if h.failed_concrete:       # clauses that failed natively BEFORE a later assumption turned out false still failed
            return "failed", list(h.failed_concrete), f"(a later assumption is false on this input: {e})"
        return "mismatch", [], str(e)
    except PathAbort:
        if h.failed_concrete:
            return "failed", list(h.failed_concrete), "(a later assumption is false on this input)"
        return "mismatch", [], "assumption false"
    except EngineError as e:
        return "mismatch", [], f"engine: {e}"
    except Exception as e:
        return "raised", ["no_exception"] + h.failed_concrete, f"{type(e).__name__}: {e}"
    if h.failed_concrete:
        return "failed", list(h.failed_concrete), ""
    return "passed", [], ""


def run_obligation(ob: Obligation, known=(), tier="quick"):
    """Full treatment of one obligation.  Returns a JSON-able result dict."""
    t0 = time.time()
    base = ob.name.split("[")[0]
    def _bases(k):
        o = k.get("obligation", "")
        return [x.split("[")[0] for x in (o if isinstance(o, list) else [o])]
    known_here = [k for k in known if base in _bases(k) and k.get("status", "open") == "open"]
    known_open = [k["id"] for k in known_here]
    res = {
        "obligation": ob.name, "kind": ob.kind, "bound": ob.bound, "doc": ob.doc,
        "functions": [fn_info(f) for f in ob.functions],
        "status": None, "clauses": {}, "violations": [], "known_findings": [], "undecided": [],
        "stubs": list(ob.stubs), "assumptions": list(ob.assumptions),
    }
    if ob.runner is not None:
        try:
            r = ob.runner(ob, {"known": known_here, "tier": tier})
        except Exception as e:
            r = {"status": "error", "message": f"{type(e).__name__}: {e}\n{traceback.format_exc(limit=8)}"}
        res.update(r)
        res["wall_s"] = time.time() - t0
        return res
    try:
        agg, stats, covers, stubs = explore(ob, known_open, tier)
    except Exception as e:
        res["status"] = "error"
        res["message"] = f"{type(e).__name__}: {e}\n{traceback.format_exc(limit=8)}"
        res["wall_s"] = time.time() - t0
        return res
    res["stats"] = stats
    res["stubs"] = sorted(set(res["stubs"]) | stubs)
    status = "discharged"
    for name, a in agg.items():
        cl = {"paths_discharged": a.get("discharged", 0), "paths_sat": a.get("sat", 0), "paths_unknown": a.get("unknown", 0), "max_query_s": round(a.get("max_s", 0.0), 3)}
        res["clauses"][name] = cl
        if a.get("sat", 0):
            reproduced = None
            last = None
            for m in a["models"]:
                if m is None:
                    continue
                st, failing, detail = replay_concrete(ob, m, known_open, tier)
                last = (st, failing, detail)
                if st in ("failed", "raised") and (name in failing):
                    reproduced = {"clause": name, "input": m, "observed": detail or f"clause {name} is false on the real code", "solver": "z3 sat"}
                    break
            if reproduced:
                cl["verdict"] = "violated"
                res["violations"].append(reproduced)
            elif last is not None and last[0] in ("passed", "failed", "raised"):
                # the candidate input satisfies the clause on the real code: the solver's model is an artefact of the
                # abstraction (uninterpreted functions, reals for floats) -- undecided, never a violation
                cl["verdict"] = "undecided"
                res["undecided"].append({"clause": name, "why": f"solver model did not reproduce natively ({last})", "info": a["info"][:1], "model": a["models"][:1]})
            else:
                # the obligation is refuted by the solver but no candidate could be replayed (havoc'd callee results, inputs
                # that are not representable as floats): reported as a violation of the named obligation without an input
                cl["verdict"] = "violated"
                res["violations"].append({"clause": name, "input": None, "observed": f"obligation refuted by the solver; candidate inputs could not be replayed natively ({last})",
                                          "solver": "z3 sat; models: " + json.dumps(a["models"][:2], default=str)[:1500] + " info: " + str(a["info"][:1])[:500]})
        elif a.get("unknown", 0):
            cl["verdict"] = "undecided"
            res["undecided"].append({"clause": name, "why": "solver returned unknown / engine limit", "info": a["info"][:2]})
        else:
            cl["verdict"] = "discharged"
    missing = [e for e in ob.expect if e not in agg]
    if missing and not (stats["paths"] == 0 and stats.get("inside_known_finding")):
        res["undecided"].append({"clause": ",".join(missing), "why": "vacuity: expected clause never evaluated on any path"})
    if stats["paths"] == 0 and not stats.get("inside_known_finding"):
        res["undecided"].append({"clause": "@vacuity", "why": "no feasible path (precondition unsatisfiable?)"})
    elif stats["paths"] == 0:
        res["note"] = f"every path of this instance ({stats['inside_known_finding']}) lies inside the region of a recorded finding; nothing else to decide here"
    if stats["budget_hit"]:
        why = f"path budget ({ob.max_paths} paths) or time budget exhausted after {stats['paths']} paths, {stats['wall_s']:.0f} s"
        if tier == "thorough" and ob.kind in ("bounded", "smallscope"):
            # the thorough tier explores as deep as its budget allows: a bounded exploration that runs out of budget held on everything it
            # explored and says so (exhaustive_within_bound: false in the evidence); it is never counted as a proof
            res["partial"] = why
        else:
            res["undecided"].append({"clause": "@paths", "why": why})
    # known findings: replay each listed witness without its exclusion
    for k in known_here:
        st, failing, detail = replay_concrete(ob, k.get("witness", {}), known_open, tier, ignore_exclusions=True)
        own = (not k.get("witness_for")) or k.get("witness_for") == base
        still = st in ("failed", "raised") and (k.get("clause") in failing or not k.get("clause") or not own)
        res["known_findings"].append({"id": k["id"], "still_fails": still, "what": k.get("what", ""), "replay": [st, failing, detail]})
    if res["violations"]:
        status = "violated"
    elif res["undecided"]:
        status = "undecided"
    res["status"] = status
    res["wall_s"] = time.time() - t0
    return res
