"""Frame back end: a may-alias / may-modify effect analysis over the real source of the repository.

For every function of the package (source re-read from /repo on every run) it computes, to a fixpoint over the call graph,

    MOD(f)   which of f's parameters (deeply reachable objects included), module globals and default-argument objects f may modify
    RET(f)   which parameters / defaults f may return an alias of (or of a part of)

Abstract values are sets of ORIGINS:
    ('param', p)            the object the caller passed for parameter p, or anything reachable from it
    ('default', f, p)       the object created once for p's default value (shared by all calls)
    ('global', m, n)        a module-level object
    ('elem', o)             a container created here whose ELEMENTS come from origin o  (list(x), sorted(x), [.. for .. in x], dict(x) ...)
    'fresh'                 created during this call

It is an over-approximation (union at joins, every method name resolved to every class that defines it), so an empty MOD is a proof of
"does not modify" under the stated assumptions about calls that leave the package; a non-empty MOD is reported as a failed frame obligation.
Assumed contracts for calls that leave the package are listed in ASSUMED (and copied into the evidence).
"""
from __future__ import annotations

import ast
import os

MUTATING_METHODS = {"append", "extend", "insert", "add", "update", "pop", "popitem", "remove", "discard", "clear", "setdefault", "sort", "reverse",
                    "fill", "__setitem__", "__delitem__", "add_many", "appendleft"}
FRESH_CALLS = {"list", "dict", "set", "tuple", "sorted", "reversed", "zip", "enumerate", "map", "filter", "frozenset", "iter"}   # fresh container, elements alias
DEEP_FRESH = {"deepcopy", "model_copy", "model_dump", "model_dump_json", "dumps", "loads", "float", "int", "str", "bool", "len", "abs", "round", "sum", "min", "max",
              "isinstance", "getattr_const", "range", "repr", "format", "print", "id", "type", "hasattr", "any", "all", "next_fresh"}
ALIAS_METHODS = {"get", "values", "items", "keys", "__getitem__", "copy", "setdefault", "pop", "popitem", "__iter__", "__next__"}   # result aliases (part of) the receiver
ASSUMED = [
    "TargetInput.model_validate(x) returns x itself or a new model (may alias x)",
    "model_copy(deep=True) (literal flag), copy.deepcopy, model_dump*, json round trips return objects sharing nothing mutable with their argument; model_copy() without deep=True shares every sub-object with its receiver",
    "constructors of package classes return new objects and do not keep references to mutable arguments other than configuration objects",
    "list/dict/set/tuple/sorted/zip/enumerate/comprehensions create a new container whose elements alias the source's elements",
    "numpy / pandas / scipy / CoolProp functions do not modify their array arguments except through out= and the listed in-place methods (fill, sort)",
    "calls through names the analysis cannot resolve are assumed not to modify their arguments (they are listed in the evidence)",
]


class Func:
    def __init__(self, module, qual, node, cls=None):
        self.module, self.qual, self.node, self.cls = module, qual, node, cls
        a = node.args
        self.params = [x.arg for x in a.posonlyargs + a.args] + ([a.vararg.arg] if a.vararg else []) + [x.arg for x in a.kwonlyargs] + ([a.kwarg.arg] if a.kwarg else [])
        self.mutable_defaults = {}
        pos = a.posonlyargs + a.args
        for p, d in zip(pos[len(pos) - len(a.defaults):], a.defaults):
            if _is_mutable_literal(d):
                self.mutable_defaults[p.arg] = ast.unparse(d)
        for p, d in zip(a.kwonlyargs, a.kw_defaults):
            if d is not None and _is_mutable_literal(d):
                self.mutable_defaults[p.arg] = ast.unparse(d)
        self.mod = set()          # origins (param / default / global) this function may modify
        self.ret = set()          # origins it may return
        self.calls = set()        # resolved callee keys
        self.unresolved = set()
        self.sites = {}           # origin -> first (line, text) where it is modified

    @property
    def key(self):
        return f"{self.module}:{self.qual}"


def _is_mutable_literal(d):
    if isinstance(d, (ast.Dict, ast.List, ast.Set, ast.ListComp, ast.DictComp, ast.SetComp)):
        return True
    if isinstance(d, ast.Call):
        n = d.func
        name = n.id if isinstance(n, ast.Name) else (n.attr if isinstance(n, ast.Attribute) else "")
        return name not in ("tuple", "frozenset", "float", "int", "str", "bool", "Path")
    return False


class Universe:
    def __init__(self, root, package="OpenPinch", skip=("streamlit_webviewer", "examples")):
        self.funcs = {}
        self.by_name = {}
        self.methods = {}
        self.classes = set()
        self.module_globals = {}
        self.class_mutables = {}          # class name -> names of class-level attributes bound to a mutable literal (shared by every instance)
        for dp, dn, fn in os.walk(os.path.join(root, package)):
            if any(s in dp for s in skip):
                continue
            for f in fn:
                if not f.endswith(".py"):
                    continue
                path = os.path.join(dp, f)
                mod = os.path.relpath(path, root)[:-3].replace(os.sep, ".")
                try:
                    tree = ast.parse(open(path, encoding="utf-8").read())
                except SyntaxError:
                    continue
                self._collect(mod, tree)

    def _collect(self, mod, tree):
        g = set()
        for node in tree.body:
            if isinstance(node, (ast.FunctionDef, ast.AsyncFunctionDef)):
                self._add(Func(mod, node.name, node))
            elif isinstance(node, ast.ClassDef):
                self.classes.add(node.name)
                for sub in node.body:
                    if isinstance(sub, (ast.FunctionDef, ast.AsyncFunctionDef)):
                        self._add(Func(mod, f"{node.name}.{sub.name}", sub, cls=node.name))
                    elif isinstance(sub, (ast.Assign, ast.AnnAssign)) and sub.value is not None and _is_mutable_literal(sub.value):
                        for t in (sub.targets if isinstance(sub, ast.Assign) else [sub.target]):
                            if isinstance(t, ast.Name):
                                self.class_mutables.setdefault(node.name, set()).add(t.id)
            elif isinstance(node, (ast.Assign, ast.AnnAssign)):
                targets = node.targets if isinstance(node, ast.Assign) else [node.target]
                v = node.value
                for t in targets:
                    if isinstance(t, ast.Name) and v is not None and _is_mutable_literal(v):
                        g.add(t.id)
        self.module_globals[mod] = g

    def _add(self, f):
        self.funcs[f.key] = f
        short = f.qual.split(".")[-1]
        if f.cls:
            self.methods.setdefault(short, []).append(f)
        else:
            self.by_name.setdefault(short, []).append(f)
        # nested functions are analysed as part of their parent (their stores count for the parent)


FRESH = "fresh"


def _roots(o):
    """origin -> underlying non-elem origin"""
    while isinstance(o, tuple) and o[0] == "elem":
        o = o[1]
    return o


class Analyzer(ast.NodeVisitor):
    def __init__(self, uni, f):
        self.u, self.f = uni, f
        self.env = {}
        for p in f.params:
            o = {("param", p)}
            if p in f.mutable_defaults:
                o.add(("default", f.key, p))
            self.env[p] = o
        self.changed = False

    # ---- helpers ----------------------------------------------------------------------------------
    def _mod(self, origins, node, what):
        for o in origins:
            if o == FRESH:
                continue
            if isinstance(o, tuple) and o[0] == "elem":
                continue           # mutating a container created here
            if o not in self.f.mod:
                self.f.mod.add(o)
                self.changed = True
            self.f.sites.setdefault(o, (getattr(node, "lineno", 0), what))

    def _deep(self, origins):
        """origins of objects reachable from a value (elements of a fresh container alias their source)"""
        return {(_roots(o) if isinstance(o, tuple) and o[0] == "elem" else o) for o in origins}

    def val(self, e):
        if e is None:
            return {FRESH}
        if isinstance(e, ast.Name):
            if e.id in self.env:
                return set(self.env[e.id])
            if e.id in self.u.module_globals.get(self.f.module, ()):
                return {("global", self.f.module, e.id)}
            return {FRESH}
        if isinstance(e, ast.Attribute):
            out = self._deep(self.val(e.value))
            # `self.X` inside a method of a class whose body binds X to a mutable literal: unless the instance re-binds it, this IS the one object
            # shared by every instance (and by every analysis) -- module-level state reached through an instance
            if isinstance(e.value, ast.Name) and e.value.id == "self" and self.f.cls and e.attr in self.u.class_mutables.get(self.f.cls, ()):
                out = set(out) | {("global", self.f.module, f"{self.f.cls}.{e.attr}")}
            return out
        if isinstance(e, ast.Subscript):
            return self._deep(self.val(e.value))
        if isinstance(e, ast.Starred):
            return self.val(e.value)
        if isinstance(e, (ast.List, ast.Tuple, ast.Set)):
            out = set()
            for x in e.elts:
                out |= {("elem", _roots(o)) for o in self.val(x) if o != FRESH}
            return out or {FRESH}
        if isinstance(e, ast.Dict):
            out = set()
            for x in e.values:
                if x is not None:
                    out |= {("elem", _roots(o)) for o in self.val(x) if o != FRESH}
            return out or {FRESH}
        if isinstance(e, (ast.ListComp, ast.SetComp, ast.GeneratorExp, ast.DictComp)):
            saved = dict(self.env)
            for g in e.generators:
                self._bind(g.target, self._deep(self.val(g.iter)))
            elt = e.value if isinstance(e, ast.DictComp) else e.elt
            out = {("elem", _roots(o)) for o in self.val(elt) if o != FRESH}
            self.env = saved
            return out or {FRESH}
        if isinstance(e, ast.IfExp):
            return self.val(e.body) | self.val(e.orelse)
        if isinstance(e, ast.BoolOp):
            out = set()
            for x in e.values:
                out |= self.val(x)
            return out
        if isinstance(e, ast.NamedExpr):
            v = self.val(e.value)
            self._bind(e.target, v)
            return v
        if isinstance(e, ast.Call):
            return self.call(e)
        if isinstance(e, ast.BinOp):
            return {FRESH}     # arithmetic / concatenation builds new objects (StreamCollection.__add__ included)
        if isinstance(e, (ast.Lambda,)):
            return {FRESH}
        if isinstance(e, ast.Await):
            return self.val(e.value)
        return {FRESH}

    def _bind(self, target, origins):
        if isinstance(target, ast.Name):
            self.env[target.id] = set(origins)
        elif isinstance(target, (ast.Tuple, ast.List)):
            for t in target.elts:
                self._bind(t, self._deep(origins))
        elif isinstance(target, ast.Starred):
            self._bind(target.value, origins)
        elif isinstance(target, (ast.Attribute, ast.Subscript)):
            self._mod(self.val(target.value), target, ast.unparse(target)[:80])

    def call(self, e):
        fn = e.func
        args = [self.val(a) for a in e.args]
        kw = {k.arg: self.val(k.value) for k in e.keywords}
        name = fn.id if isinstance(fn, ast.Name) else (fn.attr if isinstance(fn, ast.Attribute) else None)
        recv = self.val(fn.value) if isinstance(fn, ast.Attribute) else None
        if name is None:
            return {FRESH}
        # -- calls that leave the package: assumed contracts
        if name == "model_validate":
            return set().union(*args) | {FRESH} if args else {FRESH}
        if name in ("setattr",) and args:
            self._mod(args[0], e, ast.unparse(e)[:80])
            return {FRESH}
        if name in ("copyto",) and args:
            self._mod(args[0], e, ast.unparse(e)[:80])
            return {FRESH}
        if "out" in kw:
            self._mod(kw["out"], e, ast.unparse(e)[:80])
        if isinstance(fn, ast.Name) and name in FRESH_CALLS:
            out = set()
            for a in args:
                out |= {("elem", _roots(o)) for o in a if o != FRESH}
            return out or {FRESH}
        if name == "model_copy" and recv is not None:
            deep = any(k.arg == "deep" and isinstance(k.value, ast.Constant) and k.value.value is True for k in e.keywords)
            if deep:
                return {FRESH}
            # shallow copy: a new top-level object (mutating IT is local) whose fields still refer to the receiver's sub-objects and to
            # the `update` values
            out = {("elem", _roots(o)) for o in recv if o != FRESH}
            for v in kw.values():
                out |= {("elem", _roots(o)) for o in v if o != FRESH}
            return out or {FRESH}
        if name in ("deepcopy", "model_dump", "model_dump_json"):
            return {FRESH}
        cands = []
        if isinstance(fn, ast.Name):
            cands = list(self.u.by_name.get(name, []))
            if name in self.u.classes:
                cands = list(self.u.methods.get("__init__", [])) and [m for m in self.u.methods.get("__init__", []) if m.cls == name]
                for c in cands:
                    self._apply(c, [{FRESH}] + args, kw, e)
                return {FRESH}
        else:
            if recv is not None and name in MUTATING_METHODS and not self.u.methods.get(name):
                self._mod(recv, e, ast.unparse(e)[:80])
                return self._deep(recv) if name in ALIAS_METHODS else {FRESH}
            cands = list(self.u.methods.get(name, []))
            if not cands and isinstance(fn.value, ast.Name) and fn.value.id not in self.env:
                cands = list(self.u.by_name.get(name, []))       # module.function(...)
                recv = None
        if not cands:
            if recv is not None:
                if name in MUTATING_METHODS:
                    self._mod(recv, e, ast.unparse(e)[:80])
                if name in ALIAS_METHODS or name in ("values", "items"):
                    return self._deep(recv) | {FRESH}
            self.f.unresolved.add(name)
            return {FRESH}
        out = {FRESH}
        for c in cands:
            a2 = ([recv] if (recv is not None and c.cls) else []) + args
            out |= self._apply(c, a2, kw, e)
        if recv is not None and name in MUTATING_METHODS:
            self._mod(recv, e, ast.unparse(e)[:80])
        return out

    def _apply(self, c, args, kw, node):
        self.f.calls.add(c.key)
        bound = {}
        for p, a in zip(c.params, args):
            bound[p] = a
        for k, a in kw.items():
            if k in c.params:
                bound[k] = a
        res = set()
        for o in c.mod:
            if o[0] == "param":
                if o[1] in bound:
                    self._mod(self._deep(bound[o[1]]), node, f"{c.qual}(...) modifies its parameter {o[1]}")
            elif o[0] == "default":
                if o[2] not in bound:          # the shared default object is used when the caller omits the argument
                    self._mod({o}, node, f"{c.qual}(...) modifies its default {o[2]}")
            else:
                self._mod({o}, node, f"{c.qual}(...) modifies {o}")
        for o in c.ret:
            if o[0] == "param" and o[1] in bound:
                res |= self._deep(bound[o[1]])
            elif o[0] == "default" and o[2] not in bound:
                res.add(o)
            elif o[0] == "global":
                res.add(o)
        return res

    # ---- statements --------------------------------------------------------------------------------
    def run(self):
        for _ in range(3):          # loops / use-before-def inside the body
            for st in self.f.node.body:
                self.visit(st)
        return self.changed

    def visit_FunctionDef(self, node):      # nested function: analysed in the parent's environment
        saved = dict(self.env)
        for a in node.args.args:
            self.env.setdefault(a.arg, {FRESH})
        for st in node.body:
            self.visit(st)
        self.env = {**self.env, **saved}

    def visit_Assign(self, node):
        v = self.val(node.value)
        for t in node.targets:
            self._bind(t, v)

    def visit_AnnAssign(self, node):
        if node.value is not None:
            self._bind(node.target, self.val(node.value))

    def visit_AugAssign(self, node):
        self.val(node.value)
        t = node.target
        if isinstance(t, ast.Name):
            # x += y mutates x in place when x is a list / array / collection
            self._mod(self.env.get(t.id, {FRESH}), node, ast.unparse(node)[:80])
        else:
            self._mod(self.val(t.value), node, ast.unparse(node)[:80])

    def visit_Delete(self, node):
        for t in node.targets:
            if isinstance(t, (ast.Subscript, ast.Attribute)):
                self._mod(self.val(t.value), node, ast.unparse(node)[:80])

    def visit_For(self, node):
        self._bind(node.target, self._deep(self.val(node.iter)))
        for st in node.body + node.orelse:
            self.visit(st)

    def visit_While(self, node):
        self.val(node.test)
        for st in node.body + node.orelse:
            self.visit(st)

    def visit_If(self, node):
        self.val(node.test)
        before = {k: set(v) for k, v in self.env.items()}
        for st in node.body:
            self.visit(st)
        after_body = self.env
        self.env = {k: set(v) for k, v in before.items()}
        for st in node.orelse:
            self.visit(st)
        for k in set(after_body) | set(self.env):
            self.env[k] = set(after_body.get(k, set())) | set(self.env.get(k, set()))

    def visit_With(self, node):
        for it in node.items:
            v = self.val(it.context_expr)
            if it.optional_vars is not None:
                self._bind(it.optional_vars, v)
        for st in node.body:
            self.visit(st)

    def visit_Try(self, node):
        for st in node.body + node.orelse + node.finalbody:
            self.visit(st)
        for hnd in node.handlers:
            for st in hnd.body:
                self.visit(st)

    def visit_Return(self, node):
        for o in self.val(node.value):
            o = _roots(o) if isinstance(o, tuple) and o[0] == "elem" else o
            if o != FRESH and o not in self.f.ret:
                self.f.ret.add(o)
                self.changed = True

    def visit_Expr(self, node):
        self.val(node.value)

    def visit_Global(self, node):
        for n in node.names:
            self._mod({("global", self.f.module, n)}, node, f"global {n}")

    def generic_visit(self, node):
        for child in ast.iter_child_nodes(node):
            if isinstance(child, ast.stmt):
                self.visit(child)
            elif isinstance(child, ast.expr):
                self.val(child)


def analyse(root):
    uni = Universe(root)
    for _ in range(12):
        changed = False
        for f in uni.funcs.values():
            if Analyzer(uni, f).run():
                changed = True
        if not changed:
            break
    return uni


def reachable(uni, roots):
    seen, todo = set(), list(roots)
    while todo:
        k = todo.pop()
        if k in seen or k not in uni.funcs:
            continue
        seen.add(k)
        todo.extend(uni.funcs[k].calls)
    return seen
