"""Back end `lean`: the ground axioms that pvc/sym.py hands the SMT solver about the uninterpreted symbols exp, ln, sqrt, pow and rnd<k>, and the
log-mean lemma assumed by C20.lmtd.upper, are theorems of Mathlib's real analysis -- proved in /verif/lean/Axioms.lean and re-checked by Lean on
every run of the obligation that carries this runner.

Link between the Python text and the Lean text (mechanical, on every run):
  * every `add_axiom(...)` call inside sym_exp / sym_log / sym_sqrt / sym_pow / sym_round (found by parsing pvc/sym.py) must be listed in
    lean/axiom_map.json with the SAME source text (sha256) and the name of the theorem(s) that prove it; an axiom that was added or edited after
    its proof makes the obligation UNDECIDED (never held),
  * every theorem named in the map must occur in Axioms.lean, the file must not contain `sorry`, `axiom`, `native_decide` or `unsafe`,
  * `lake env lean Axioms.lean` (Lean 4.33 + the pre-built Mathlib under /opt/veriftools/mathlib4) must exit 0 with no diagnostics.
What stays assumed: that the theorem STATEMENTS say what the axiom lines say (reviewed by hand: each theorem's docstring quotes its line), that z3's
uninterpreted symbols are read as Real.exp / Real.log / Real.sqrt / Real.rpow / round-to-nearest, and Lean's kernel."""
from __future__ import annotations

import ast
import hashlib
import json
import os
import re
import subprocess
import time

HERE = os.path.dirname(os.path.abspath(__file__))
LEAN_DIR = os.path.join(os.path.dirname(HERE), "lean")
FUNCS = ("sym_round", "sym_exp", "sym_log", "sym_sqrt", "sym_pow")
MATHLIB = "/opt/veriftools/mathlib4"


def axiom_sites():
    """[(function, ordinal, source text of the add_axiom call)] from the real pvc/sym.py"""
    src = open(os.path.join(HERE, "sym.py")).read()
    tree = ast.parse(src)
    out = []
    for node in tree.body:
        if isinstance(node, ast.FunctionDef) and node.name in FUNCS:
            calls = [n for n in ast.walk(node) if isinstance(n, ast.Call) and isinstance(n.func, ast.Attribute) and n.func.attr == "add_axiom"]
            calls.sort(key=lambda n: (n.lineno, n.col_offset))
            for k, c in enumerate(calls):
                out.append((node.name, k, " ".join(ast.get_source_segment(src, c).split())))
    return out


def _sha(t):
    return hashlib.sha256(t.encode()).hexdigest()[:16]


def write_map(assign):
    """developer aid: (re)generate lean/axiom_map.json from the current sym.py and a {(function, ordinal): [theorems]} assignment"""
    rows = [{"function": f, "ordinal": k, "text": t, "sha": _sha(t), "theorems": assign[(f, k)]} for f, k, t in axiom_sites()]
    json.dump(rows, open(os.path.join(LEAN_DIR, "axiom_map.json"), "w"), indent=1)


def runner(ob, env):
    t0 = time.time()
    res = {"stats": {"paths": 1, "evaluations": 0, "queries": 0, "solver_s": 0.0}, "backends": ["lean 4.33.0 + Mathlib v4.33.0 (lake env lean lean/Axioms.lean)"],
           "clauses": {}, "violations": [], "undecided": [], "known_findings": []}
    lean_file = os.path.join(LEAN_DIR, "Axioms.lean")
    text = open(lean_file).read()
    amap = json.load(open(os.path.join(LEAN_DIR, "axiom_map.json")))
    by_key = {(r["function"], r["ordinal"]): r for r in amap}
    problems = []
    sites = axiom_sites()
    for f, k, t in sites:
        r = by_key.get((f, k))
        if r is None:
            problems.append(f"{f} axiom #{k} `{t}` has no Lean theorem")
        elif r["sha"] != _sha(t):
            problems.append(f"{f} axiom #{k} was edited after its proof: `{t}` (proved text: `{r['text']}`)")
    if len(amap) != len(sites):
        problems.append(f"{len(amap)} mapped axioms, {len(sites)} add_axiom calls in pvc/sym.py")
    theorems = sorted({th for r in amap for th in r["theorems"]} | {"log_ge_two_mul_ax", "log_mean_upper_ax", "log_mean_lower_ax"})
    for th in theorems:
        if not re.search(r"^(theorem|lemma)\s+" + re.escape(th) + r"(?![\w'])", text, re.M):
            problems.append(f"theorem {th} not found in Axioms.lean")
    code = re.sub(r"/-.*?-/", "", text, flags=re.S)
    code = re.sub(r"--.*", "", code)
    for bad in ("sorry", "native_decide", "unsafe"):
        if re.search(r"\b" + bad + r"\b", code):
            problems.append(f"`{bad}` occurs in Axioms.lean")
    if re.search(r"^\s*axiom\s", code, re.M):
        problems.append("an `axiom` declaration occurs in Axioms.lean")
    res["clauses"]["every_smt_axiom_has_a_current_lean_theorem"] = {"verdict": "discharged" if not problems else "unknown", "axioms": len(sites), "theorems": len(theorems)}
    ok_lean = False
    msg = ""
    if not problems:
        try:
            t1 = time.time()
            p = subprocess.run(["lake", "env", "lean", lean_file], cwd=MATHLIB, capture_output=True, text=True, timeout=1500)
            res["stats"]["solver_s"] = round(time.time() - t1, 1)
            msg = (p.stdout + p.stderr).strip()
            ok_lean = p.returncode == 0 and "error" not in msg and "sorry" not in msg
        except Exception as e:  # lean missing / timeout: undecided, never a violation
            msg = f"{type(e).__name__}: {e}"
        res["clauses"]["lean_accepts_every_theorem"] = {"verdict": "discharged" if ok_lean else "unknown", "lean_s": res["stats"]["solver_s"], "theorems": len(theorems)}
    res["stats"]["evaluations"] = len(theorems)
    res["stats"]["wall_s"] = time.time() - t0
    if problems or not ok_lean:
        res["status"] = "undecided"
        res["undecided"] = [{"clause": "lean", "reason": "; ".join(problems) or f"lean did not accept the file: {msg[:800]}"}]
    else:
        res["status"] = "discharged"
    return res
