"""Loop cutting with an inductive invariant for a Python `for` loop of the REAL function -- no source transformation.

The loop of the function under contract iterates an object the harness supplies (`CutSeq`).  CPython calls that object's `__next__` exactly at
the loop head, so `__next__` is where the classical rule is applied to the running frame of the real, unmodified function:

    first arrival      BASE    check Inv(0, state)                                            clauses  <loop>.base.<clause>
                       then the path forks (h.choice):
         case "step"   havoc the loop's frame, assume 0 <= i < n and Inv(i, state), yield the generic element e(i); the real body runs once;
    second arrival     STEP    check Inv(i+1, state), check the heap frame, end the path       clauses  <loop>.preserved.<clause>, <loop>.frame
         case "exit"   havoc the loop's frame, assume Inv(n, state), raise StopIteration: the real code after the loop runs on an arbitrary
                       state satisfying the invariant at n -- for EVERY n >= 0 (n is a z3 Int): no bound on the number of iterations.

`havoc the frame` = the local variables of the running frame are overwritten in place (frame.f_locals + PyFrame_LocalsToFast, CPython 3.12) with
fresh symbols supplied by the contract; heap objects the loop may write are overwritten by the contract's `havoc` as well.

What is checked mechanically, what is trusted:
  * LOCALS: the set of names assigned anywhere in the loop body is computed from the function's own source (ast) on every run; every such name must
    be havoc'd: with the contract's fresh value if it is loop-carried state, otherwise with POISON (a loop-local temporary is always assigned
    before use; any USE of POISON aborts the obligation as undecided).  A body that starts carrying a new local across iterations therefore
    makes the obligation undecided, never held; a body that merely introduces a new temporary is verified as before.
  * HEAP: on the step path everything reachable (attributes, list / dict items, depth-first) from the frame's locals and the generic element is
    snap-shotted after the havoc and compared by identity after the body; a write outside the declared `modifies` set fails clause <loop>.frame.
    Trusted: that reachability from the frame's locals covers what the loop can reach (module globals are not followed), and that a write which
    stores the identical object again is no write.
  * `break` / `return` inside the loop body leave the loop without a second arrival: the path then simply continues after the loop from the state
    of that iteration, which is the correct semantics (state = Inv(i) + one body).  `continue` arrives at the head normally.
  * A counter-model has no native replay (n, i and the element family are uninterpreted): a refuted clause is reported
    `no-failing-input-found`; the bounded sibling obligation of the same function supplies inputs.
"""
from __future__ import annotations

import ast
import ctypes
import inspect
import sys
import textwrap

import z3

from .sym import EngineError, SymInt, SymReal


class _Poison:
    """value of a loop-local temporary after the havoc: must be assigned before it is used"""

    def _bad(self, *a, **k):
        raise EngineError("loop cut: a loop-local temporary is read before it is assigned in the iteration (declare it as loop-carried state)")

    __getattr__ = __getitem__ = __call__ = __iter__ = __bool__ = __float__ = __int__ = __len__ = _bad
    __add__ = __radd__ = __sub__ = __rsub__ = __mul__ = __rmul__ = __truediv__ = __rtruediv__ = __lt__ = __le__ = __gt__ = __ge__ = __neg__ = __abs__ = _bad

    def __repr__(self):
        return "<POISON>"


POISON = _Poison()


def _assigned_in_loop(code, lineno):
    """names assigned in the body of the `for` statement of `code` whose header contains line `lineno` (from the real source), and its target names"""
    lines, first = inspect.getsourcelines(code)
    tree = ast.parse(textwrap.dedent("".join(lines)))
    rel = lineno - first + 1
    best = None
    for node in ast.walk(tree):
        if isinstance(node, ast.For) and node.lineno <= rel <= (node.iter.end_lineno or node.lineno):
            if best is None or node.lineno > best.lineno:
                best = node
    if best is None:
        raise EngineError(f"loop cut: no `for` statement at line {lineno} of {code.co_name}")
    targets = {n.id for n in ast.walk(best.target) if isinstance(n, ast.Name)}
    names = set()
    for stmt in best.body + best.orelse:
        for n in ast.walk(stmt):
            if isinstance(n, ast.Name) and isinstance(n.ctx, (ast.Store, ast.Del)):
                names.add(n.id)
            elif isinstance(n, (ast.FunctionDef, ast.Lambda, ast.ClassDef)):
                pass
    return names, targets, best.lineno + first - 1


def _write_locals(frame, new):
    loc = frame.f_locals
    loc.update(new)
    ctypes.pythonapi.PyFrame_LocalsToFast(ctypes.py_object(frame), ctypes.c_int(0))


_ATOMS = (int, float, str, bool, bytes, type(None), type, z3.ExprRef)


def _snapshot(roots):
    snap, seen, stack = {}, set(), list(roots)
    while stack:
        o = stack.pop()
        if isinstance(o, _ATOMS) or id(o) in seen or callable(o) and not hasattr(o, "__dict__"):
            continue
        if (type(o).__module__ or "").split(".")[0] in ("pvc", "z3"):          # the verifier's own objects (harness, context, this iterable) are not program state
            continue
        seen.add(id(o))
        if isinstance(o, dict):
            snap[id(o)] = (o, dict(o))
            stack.extend(o.values())
        elif isinstance(o, (list, tuple)):
            snap[id(o)] = (o, dict(enumerate(o)))
            stack.extend(o)
        elif hasattr(o, "__dict__") and not inspect.ismodule(o) and not inspect.isfunction(o) and not inspect.isclass(o):
            snap[id(o)] = (o, dict(vars(o)))
            stack.extend(vars(o).values())
    return snap


def _current(o):
    if isinstance(o, dict):
        return dict(o)
    if isinstance(o, (list, tuple)):
        return dict(enumerate(o))
    return dict(vars(o))


def _frame_violations(snap, allowed):
    out = []
    for oid, (o, before) in snap.items():
        now = _current(o)
        for k in set(before) | set(now):
            if (oid, k) in allowed:
                continue
            if k not in now or k not in before or now[k] is not before[k]:
                a, b = before.get(k, "<absent>"), now.get(k, "<absent>")
                if isinstance(a, float) and isinstance(b, float) and not isinstance(a, SymReal) and not isinstance(b, SymReal) and a == b:
                    continue
                out.append(f"{type(o).__name__}.{k}")
    return out


class CutSeq:
    """The iterable handed to the real function in place of a sequence of arbitrary length n.

    h        harness                       name     prefix of the clause names
    n        SymInt, the (symbolic) number of elements; the harness assumes n >= 0
    elem     i -> the generic i-th element (built from uninterpreted functions of i)
    inv      (i, L) -> [(clause name, formula)]       the invariant at index i over the frame's locals L (heap read through L)
    havoc    (i, L) -> {local name: new value}        fresh loop state; also overwrites the heap cells listed by `modifies`
    modifies (L) -> [(object, attribute or key)]      heap cells the loop may write
    ghost    (i, L, e) -> None                        optional ghost update, run at the second arrival BEFORE the checks: may only DEFINE ghost symbols
                                                      at index i+1 from the state the body left (like `ghost r := r + ...` at the end of a loop body)
    elem_post (i, L, e) -> [(clause name, formula)]   optional per-element postcondition (what the body did to the i-th element itself)
    """

    def __init__(self, h, name, n, elem, inv, havoc, modifies=lambda L: [], ghost=None, elem_post=None):
        self.h, self.name, self.n, self.elem, self.inv, self.havoc, self.modifies = h, name, n, elem, inv, havoc, modifies
        self.ghost, self.elem_post = ghost, elem_post
        self.arrivals = 0

    def __iter__(self):
        if not self.h.symbolic:
            from .engine import ReplayMismatch
            raise ReplayMismatch("loop-cut obligation: n and the element family are uninterpreted, no native replay")
        self.it = _CutIter(self)
        return self.it

    __reversed__ = __iter__          # reversed(seq): the element family is arbitrary, so the reversed sequence is again an arbitrary family

    @property
    def left_early(self):
        """True after the real function returned when the loop was left by `break` / `return` inside the generic iteration (no second arrival):
        the harness then states its exit clauses over `self.it.state` (the havoc'd locals at index i) and `self.it.e` (the element as the body left it)."""
        return getattr(self, "it", None) is not None and self.it.stage == 1


class _CutIter:
    def __init__(self, seq):
        self.s = seq
        self.stage = 0

    def __iter__(self):
        return self

    def __next__(self):
        s, h = self.s, self.s.h
        f = sys._getframe(1)
        if self.stage == 0:
            s.arrivals += 1
            L = dict(f.f_locals)
            assigned, targets, head = _assigned_in_loop(f.f_code, f.f_lineno)
            for nm, cl in s.inv(0, L):
                h.check(f"{s.name}.base.{nm}", cl)
            case = h.choice(f"{s.name}.case", ["step", "exit"])
            i = SymInt(z3.Int(f"{s.name}.i"))
            h.assume(i >= 0)
            h.assume(i < s.n if case == "step" else i == s.n)
            self.i = i
            new = s.havoc(i, L)
            # names the body assigns and the contract does not mention are treated as loop-local temporaries: POISON after the havoc.  Sound: a
            # temporary is assigned before it is read; if such a name is in fact loop-carried, its first read raises EngineError (undecided).
            for nm in sorted(assigned - targets - set(new)):
                new[nm] = POISON
            _write_locals(f, new)
            L = dict(f.f_locals)
            self.state = dict(new)
            for nm, cl in s.inv(i, L):
                h.assume(cl)
            h.cover(f"{s.name}.{case}")
            if case == "exit":
                self.stage = 2
                raise StopIteration
            e = s.elem(i)
            self.allowed = {(id(o), k) for o, k in s.modifies(L)}          # (after elem: the contract may list cells of the generic element)
            self.snap = _snapshot(list(L.values()) + [e])
            self.stage = 1
            self.e = e
            return e
        if self.stage == 1:
            L = dict(f.f_locals)
            if s.ghost is not None:
                s.ghost(self.i, L, self.e)
            if s.elem_post is not None:
                for nm, cl in s.elem_post(self.i, L, self.e):
                    h.check(f"{s.name}.element.{nm}", cl)
            for nm, cl in s.inv(self.i + 1, L):
                h.check(f"{s.name}.preserved.{nm}", cl)
            bad = _frame_violations(self.snap, self.allowed)
            if bad and __import__("os").environ.get("PVC_DEBUG"):
                print("loop cut", s.name, "frame:", sorted(set(bad)), file=sys.stderr)
            h.check(f"{s.name}.frame", not bad, note="written outside the loop's declared frame: " + ", ".join(sorted(set(bad))[:6]) if bad else None)
            from .sym import PathAbort
            raise PathAbort()          # the inductive step ends here; clauses evaluated so far count
        raise StopIteration
