"""numpy / math / builtins shims used while a real function runs on proxies.

``SArr`` is a subclass of ``numpy.ndarray`` (so numpy's own view/stride/broadcast
semantics are used, not re-implemented); numeric data are held with dtype=object
so that elements can be ``SymReal``.  The module object ``NP`` is substituted for
the global name ``np`` of the repository's modules for the duration of one
symbolic execution; every function not listed here is forwarded to numpy after its
arguments have been converted (a list holding a ``SymReal`` would otherwise be
coerced to float64 NaNs).

Trusted base: this file.  It is differentially tested against the installed
numpy on concrete inputs by ``pvc/selftest.py``.
"""
from __future__ import annotations

import builtins
import functools
import math as _math

import numpy as _np
import z3

from . import sym
from .qarr import QArr, QIndices
from .sym import (EngineError, SymBool, SymInt, SymReal, ctx, is_sym, lift_real,
                  sym_exp, sym_log, sym_pow, sym_round, sym_sqrt, to_z3_bool)

_CMP = {_np.greater, _np.less, _np.greater_equal, _np.less_equal, _np.equal, _np.not_equal}


def _has_sym(x, depth=0):
    if is_sym(x):
        return True
    if isinstance(x, _np.ndarray):
        return x.dtype == object
    if isinstance(x, (list, tuple)) and depth < 4:
        return any(_has_sym(e, depth + 1) for e in x)
    return False


def _concrete_bool(m):
    """Concretise one mask element (forks on a symbolic one)."""
    if isinstance(m, SymBool):
        return bool(m)
    if isinstance(m, (SymReal, SymInt)):
        return bool(m)
    return bool(m)


def _is_boolish_obj(a):
    if not (isinstance(a, _np.ndarray) and a.dtype == object and a.size > 0):
        return False
    e = a.reshape(-1)[0]
    return isinstance(e, (SymBool, bool, _np.bool_))


def concretise_mask(a):
    flat = [_concrete_bool(m) for m in _np.asarray(a).reshape(-1)]
    return _np.array(flat, dtype=bool).reshape(_np.shape(a))


def _fix_key(key):
    if isinstance(key, tuple):
        return tuple(_fix_key(k) for k in key)
    if isinstance(key, _np.ndarray) and key.dtype == object:
        if _is_boolish_obj(key) or key.size == 0:
            return concretise_mask(key)
        return _np.array([int(k) for k in key.reshape(-1)], dtype=int).reshape(key.shape)
    if isinstance(key, SymBool):
        return bool(key)
    if isinstance(key, list) and any(isinstance(k, SymBool) for k in key):
        return [bool(k) for k in key]
    return key


def _sinvert(x):
    if isinstance(x, SymBool):
        return ~x
    if isinstance(x, (bool, _np.bool_)):
        return not x
    return ~x


class SArr(_np.ndarray):
    """ndarray whose object cells may be symbolic."""

    def __array_finalize__(self, obj):
        pass

    def __array_ufunc__(self, ufunc, method, *inputs, **kw):
        ins = tuple(_np.asarray(i) if isinstance(i, SArr) else i for i in inputs)
        if "out" in kw:
            kw["out"] = tuple(_np.asarray(o) if isinstance(o, SArr) else o for o in kw["out"])
        anyobj = any(isinstance(i, _np.ndarray) and i.dtype == object for i in ins) or any(is_sym(i) for i in ins)
        if anyobj and method == "__call__":
            if ufunc in _CMP:
                kw.setdefault("dtype", object)
            elif ufunc is _np.invert:
                r = _np.frompyfunc(_sinvert, 1, 1)(ins[0])
                return r.view(SArr) if isinstance(r, _np.ndarray) else r
            elif ufunc in (_np.logical_and, _np.logical_or, _np.logical_not):
                raise EngineError(f"{ufunc.__name__} on symbolic arrays is not modelled (use & | ~)")
            elif ufunc in (_np.exp, _np.log, _np.sqrt):
                f = {_np.exp: sym_exp, _np.log: sym_log, _np.sqrt: sym_sqrt}[ufunc]
                r = _np.frompyfunc(f, 1, 1)(ins[0])
                return r.view(SArr) if isinstance(r, _np.ndarray) else r
            elif ufunc in (_np.isnan, _np.isfinite, _np.isinf):
                f = {_np.isnan: _isnan1, _np.isfinite: _isfinite1, _np.isinf: lambda x: False if is_sym(x) else _math.isinf(x)}[ufunc]
                r = _np.frompyfunc(f, 1, 1)(ins[0])
                return r.astype(bool).view(SArr) if isinstance(r, _np.ndarray) else bool(r)
            elif ufunc in (_np.maximum, _np.minimum):
                f = sym.smax if ufunc is _np.maximum else sym.smin
                r = _np.frompyfunc(lambda a, b: f(a, b), 2, 1)(ins[0], ins[1])
                return r.view(SArr) if isinstance(r, _np.ndarray) else r
            elif ufunc is _np.power:
                r = _np.frompyfunc(sym_pow, 2, 1)(ins[0], ins[1])
                return r.view(SArr) if isinstance(r, _np.ndarray) else r
            elif ufunc is _np.sign:
                raise EngineError("np.sign on symbolic arrays is not modelled")
        r = getattr(ufunc, method)(*ins, **kw)
        if isinstance(r, _np.ndarray):
            return r.view(SArr)
        if isinstance(r, tuple):
            return tuple(x.view(SArr) if isinstance(x, _np.ndarray) else x for x in r)
        if method == "__call__" and is_sym(r) and all(_np.ndim(i) == 0 for i in ins):
            return _scalar_arr(r)
        return r

    def __getitem__(self, key):
        r = _np.ndarray.__getitem__(self, _fix_key(key))
        return r

    def __setitem__(self, key, value):
        key = _fix_key(key)
        if self.dtype != object and _has_sym(value):
            raise EngineError("symbolic value stored into a non-object array (would be lost)")
        if isinstance(value, (list, tuple)) and _has_sym(value):
            value = _np.array(value, dtype=object)
        _np.ndarray.__setitem__(self, key, value)

    # in-place operators: numpy refuses operands with __array_ufunc__ = None, so route through the binary operator
    def _inplace(self, other, op):
        if is_sym(other) or (isinstance(other, _np.ndarray) and other.dtype == object) or self.dtype == object:
            self[...] = op(self, other)
            return self
        return NotImplemented

    def __iadd__(self, o):
        r = self._inplace(o, lambda a, b: a + b)
        return _np.ndarray.__iadd__(self, o) if r is NotImplemented else r

    def __isub__(self, o):
        r = self._inplace(o, lambda a, b: a - b)
        return _np.ndarray.__isub__(self, o) if r is NotImplemented else r

    def __imul__(self, o):
        r = self._inplace(o, lambda a, b: a * b)
        return _np.ndarray.__imul__(self, o) if r is NotImplemented else r

    def __itruediv__(self, o):
        r = self._inplace(o, lambda a, b: a / b)
        return _np.ndarray.__itruediv__(self, o) if r is NotImplemented else r

    # reductions that would otherwise fork on every comparison
    def min(self, axis=None, **kw):
        if self.dtype != object:
            return _np.ndarray.min(_np.asarray(self), axis=axis, **kw)
        return _reduce_axis(self, axis, sym.smin)

    def max(self, axis=None, **kw):
        if self.dtype != object:
            return _np.ndarray.max(_np.asarray(self), axis=axis, **kw)
        return _reduce_axis(self, axis, sym.smax)

    def round(self, decimals=0, out=None):
        return NP.round(self, decimals)

    def var(self, axis=None, **kw):
        if self.dtype != object:
            return _np.ndarray.var(_np.asarray(self), axis=axis, **kw)
        if axis is not None:
            raise EngineError("var(axis=...) on symbolic arrays")
        items = list(_np.asarray(self).reshape(-1))
        n = len(items)
        mean = sum(items[1:], items[0]) / n
        return sum([(v - mean) * (v - mean) for v in items[1:]], (items[0] - mean) * (items[0] - mean)) / n

    def mean(self, axis=None, **kw):
        if self.dtype != object:
            return _np.ndarray.mean(_np.asarray(self), axis=axis, **kw)
        if axis is not None:
            raise EngineError("mean(axis=...) on symbolic arrays")
        items = list(_np.asarray(self).reshape(-1))
        return sum(items[1:], items[0]) / len(items)

    def any(self, axis=None, **kw):
        return NP.any(self, axis=axis)

    def all(self, axis=None, **kw):
        return NP.all(self, axis=axis)

    def argmin(self, axis=None, **kw):
        return NP.argmin(self, axis=axis)

    def argmax(self, axis=None, **kw):
        return NP.argmax(self, axis=axis)

    def __bool__(self):
        if self.size == 1:
            return _concrete_bool(self.reshape(-1)[0])
        return _np.ndarray.__bool__(self)

    def __float__(self):
        if self.size == 1:
            return self.reshape(-1)[0]
        raise TypeError("only size-1 arrays can be converted")

    def astype(self, dtype, *a, **k):
        if self.dtype == object and dtype in (float, _np.float64, FloatShim) and _has_sym_arr(self):
            return self.copy()
        if self.dtype == object and dtype in (bool, _np.bool_) and _is_boolish_obj(self):
            return concretise_mask(self).view(SArr)
        return _np.ndarray.astype(self, dtype, *a, **k)


def _has_sym_arr(a):
    return any(is_sym(e) for e in _np.asarray(a).reshape(-1))


def _reduce_axis(a, axis, f):
    b = _np.asarray(a)
    if axis is None:
        items = list(b.reshape(-1))
        if not items:
            raise ValueError("zero-size array to reduction operation which has no identity")
        return f(items)
    moved = _np.moveaxis(b, axis, 0)
    if moved.shape[0] == 0:
        raise ValueError("zero-size array to reduction operation which has no identity")
    out = _np.empty(moved.shape[1:], dtype=object)
    for idx in _np.ndindex(*moved.shape[1:]):
        out[idx] = f([moved[(k,) + idx] for k in range(moved.shape[0])])
    return out.view(SArr)


def _isnan1(x):
    if is_sym(x):
        return False
    if x is None:
        raise TypeError("isnan(None)")
    return builtins.float(x) != builtins.float(x)


def _isfinite1(x):
    if is_sym(x):
        return True
    return _math.isfinite(x)


def _numeric_kind(x):
    """'f' when x holds floats/ints, 'b' for booleans, 'o' otherwise."""
    return "f"


def _to_arr(x, copy=False):
    """Convert anything array-like to an SArr, object dtype for non-integer numerics."""
    if isinstance(x, SArr):
        return x.copy() if copy else x
    if isinstance(x, _np.ndarray):
        if x.dtype.kind == "f":
            return x.astype(object).view(SArr)
        return (x.copy() if copy else x).view(SArr)
    if is_sym(x):
        a = _np.empty((), dtype=object)
        a[()] = x
        return a.view(SArr)
    if isinstance(x, (list, tuple)):
        if len(x) == 0:
            return _np.array([], dtype=object).view(SArr)
        if _has_sym(x) or _contains_float(x):
            try:
                shape = _np.shape(_np.array(x, dtype=object))
            except ValueError as e:
                raise
            a = _np.array(_plainify(x), dtype=object)
            return a.view(SArr)
        return _np.array(x).view(SArr)
    if isinstance(x, (float, _np.floating)):
        a = _np.empty((), dtype=object)
        a[()] = builtins.float(x)
        return a.view(SArr)
    if isinstance(x, (SymSet,)):
        return _to_arr(list(x))
    return _np.asarray(x).view(SArr)


def _plainify(x):
    """nested lists/tuples/arrays -> nested lists (so np.array(dtype=object) builds an n-d array)."""
    if isinstance(x, _np.ndarray):
        return [_plainify(e) for e in x] if x.ndim else x[()]
    if isinstance(x, (list, tuple)):
        return [_plainify(e) for e in x]
    if isinstance(x, _np.floating):
        return builtins.float(x)
    return x


def _contains_float(x, depth=0):
    if isinstance(x, (float, _np.floating)):
        return True
    if isinstance(x, _np.ndarray):
        return x.dtype.kind in "fO"
    if isinstance(x, (list, tuple)) and depth < 4:
        return any(_contains_float(e, depth + 1) for e in x)
    return False


def _prep(x):
    """Argument conversion for forwarded numpy functions."""
    if isinstance(x, _np.ndarray):
        return _np.asarray(_to_arr(x))
    if is_sym(x):
        return x
    if isinstance(x, (list, tuple)) and (_has_sym(x) or _contains_float(x)):
        if any(isinstance(e, (_np.ndarray, list, tuple)) for e in x):
            # sequence of arrays (concatenate, vstack, lexsort keys ...)
            return type(x)(_prep(e) if isinstance(e, (_np.ndarray, list, tuple)) else e for e in x) if not _has_sym([e for e in x if not isinstance(e, (_np.ndarray, list, tuple))]) else _np.asarray(_to_arr(x))
        return _np.asarray(_to_arr(x))
    return x


def _post(r):
    if isinstance(r, _np.ndarray):
        return r.view(SArr)
    if isinstance(r, tuple):
        return tuple(_post(e) for e in r)
    if isinstance(r, list):
        return [_post(e) for e in r]
    return r


def _generic(fn):
    @functools.wraps(fn)
    def w(*a, **k):
        a2 = tuple(_prep(x) for x in a)
        k2 = {kk: _prep(v) for kk, v in k.items()}
        if k2.get("dtype") in (float, FloatShim, _np.float64):
            k2["dtype"] = object
        return _post(fn(*a2, **k2))

    return w


class FloatMeta(type):
    def __instancecheck__(cls, inst):
        return isinstance(inst, builtins.float)

    def __subclasscheck__(cls, sub):
        return issubclass(sub, builtins.float)


class FloatShim(builtins.float, metaclass=FloatMeta):
    """Substitute for the global name ``float``: float(x) keeps a SymReal symbolic."""

    def __new__(cls, x=0.0):
        if isinstance(x, SymReal):
            return x
        if isinstance(x, SymInt):
            return SymReal(lift_real(x))
        if isinstance(x, _np.ndarray) and x.dtype == object and x.size == 1:
            return FloatShim(x.reshape(-1)[0])
        return builtins.float(x)


class IntMeta(type):
    def __instancecheck__(cls, inst):
        return isinstance(inst, builtins.int)

    def __subclasscheck__(cls, sub):
        return issubclass(sub, builtins.int)


class IntShim(builtins.int, metaclass=IntMeta):
    def __new__(cls, x=0, *a):
        if isinstance(x, SymInt):
            return x
        if isinstance(x, SymReal):
            raise EngineError("int() of a symbolic real")
        return builtins.int(x, *a)


class SymSet:
    """set() of possibly symbolic numbers: de-duplicated by (forking) equality."""

    def __init__(self, it=()):
        self.items = []
        for x in it:
            self.add(x)

    def add(self, x):
        for y in self.items:
            eq = (x == y)
            if eq is True or (not isinstance(eq, bool) and bool(eq)):
                return
        self.items.append(x)

    def __iter__(self):
        return iter(self.items)

    def __len__(self):
        return len(self.items)

    def __contains__(self, x):
        for y in self.items:
            if bool(x == y):
                return True
        return False


def set_shim(it=()):
    if isinstance(it, (set, frozenset)):
        return set(it)
    items = list(it)
    if any(is_sym(x) for x in items):
        return SymSet(items)
    return set(items)


def len_shim(x):
    n = getattr(x, "__symlen__", None)
    if n is not None:
        return n()
    return builtins.len(x)


# --------------------------------------------------------------------------------------
# The numpy stand-in
# --------------------------------------------------------------------------------------


class _LINALG:
    def __getattr__(self, name):
        return getattr(_np.linalg, name)

    def norm(self, x, ord=None, axis=None, **k):
        a = _np.asarray(_to_arr(x))
        if a.dtype != object:
            return _np.linalg.norm(a, ord=ord, axis=axis, **k)
        if ord not in (None, 2) or axis is not None:
            raise EngineError("linalg.norm variant not modelled")
        items = list(a.reshape(-1))
        return sym_sqrt(sum([v * v for v in items[1:]], items[0] * items[0]))


class _NP:
    # names that are plain data / types
    _PASS = {"nan", "inf", "pi", "e", "newaxis", "ndarray", "float64", "int64", "number", "integer", "floating",
             "bool_", "errstate", "object_", "int32", "intp", "isscalar", "ndim", "shape", "ndindex", "size",
             "issubdtype", "dtype", "finfo", "seterr", "random", "testing"}
    linalg = _LINALG()

    def __getattr__(self, name):
        v = getattr(_np, name)
        if name in self._PASS or not callable(v) or isinstance(v, type):
            return v
        w = _generic(v)
        return w

    # -- construction ----------------------------------------------------------------
    def array(self, x, dtype=None, copy=True, **k):
        if isinstance(x, QArr):
            return x.copy()
        if dtype in (int, bool, _np.int64, _np.bool_, str) and not _has_sym(x):
            return _np.array(x, dtype=dtype).view(SArr)
        return _to_arr(x, copy=True)

    def asarray(self, x, dtype=None, **k):
        if isinstance(x, QArr):
            return x
        if dtype in (int, bool, _np.int64, _np.bool_) and not _has_sym(x):
            return _np.asarray(x, dtype=dtype).view(SArr)
        return _to_arr(x)

    def atleast_1d(self, x):
        a = _to_arr(x)
        return a.reshape(1) if a.ndim == 0 else a

    def _mk(self, fn, shape, fill=None, dtype=None):
        if dtype in (int, bool, _np.int64, _np.bool_, _np.intp):
            return fn(shape, dtype=dtype).view(SArr) if fill is None else fn(shape, fill, dtype=dtype).view(SArr)
        a = _np.empty(shape, dtype=object)
        a[...] = fill
        return a.view(SArr)

    def zeros(self, shape, dtype=None, **k):
        return self._mk(_np.zeros, shape, 0.0, dtype) if dtype not in (int, bool) else _np.zeros(shape, dtype=dtype).view(SArr)

    def ones(self, shape, dtype=None, **k):
        return self._mk(_np.ones, shape, 1.0, dtype) if dtype not in (int, bool) else _np.ones(shape, dtype=dtype).view(SArr)

    def empty(self, shape, dtype=None, **k):
        if dtype in (int, bool, _np.int64, _np.bool_, _np.intp):
            return _np.zeros(shape, dtype=dtype).view(SArr)
        return self._mk(_np.empty, shape, _math.nan, None)

    def full(self, shape, fill_value, dtype=None, **k):
        if dtype in (int, bool, _np.int64, _np.bool_):
            return _np.full(shape, fill_value, dtype=dtype).view(SArr)
        a = _np.empty(shape, dtype=object)
        a[...] = fill_value if is_sym(fill_value) else (builtins.float(fill_value) if isinstance(fill_value, (float, _np.floating)) else fill_value)
        return a.view(SArr)

    def zeros_like(self, a, dtype=None, **k):
        return self.zeros(_np.shape(a), dtype=dtype)

    def ones_like(self, a, dtype=None, **k):
        return self.ones(_np.shape(a), dtype=dtype)

    def empty_like(self, a, dtype=None, **k):
        return self.empty(_np.shape(a), dtype=dtype)

    def full_like(self, a, fill_value, dtype=None, **k):
        return self.full(_np.shape(a), fill_value, dtype=dtype)

    def arange(self, *a, **k):
        if any(is_sym(x) for x in a):
            raise EngineError("np.arange with a symbolic bound")
        r = _np.arange(*a, **k)
        return _to_arr(r)

    def linspace(self, start, stop, num=50, **k):
        if not (is_sym(start) or is_sym(stop)):
            return _to_arr(_np.linspace(start, stop, num, **k))
        num = int(num)
        if num == 1:
            return _to_arr([start])
        step = (stop - start) / (num - 1)
        return _to_arr([start + i * step for i in range(num - 1)] + [stop])

    # -- elementwise ------------------------------------------------------------------
    def _ew1(self, f, x):
        if isinstance(x, (list, tuple, _np.ndarray)):
            a = _np.asarray(_to_arr(x))
            r = _np.frompyfunc(f, 1, 1)(a)
            return r.view(SArr) if isinstance(r, _np.ndarray) else _scalar_arr(r)
        return f(x)

    def abs(self, x):
        if isinstance(x, QArr):
            return QArr(x.n, (lambda f: lambda i: builtins.abs(f(i)))(x.f), 'real')
        return self._ew1(builtins.abs, x)

    absolute = abs

    def exp(self, x):
        return self._ew1(sym_exp, x)

    def log(self, x):
        return self._ew1(sym_log, x)

    def sqrt(self, x):
        return self._ew1(sym_sqrt, x)

    def square(self, x):
        return self._ew1(lambda v: v * v, x)

    def isnan(self, x):
        if isinstance(x, QArr):
            return QArr(x.n, lambda i: SymBool(z3.BoolVal(False)), 'bool')
        r = self._ew1(_isnan1, x)
        return r.astype(bool).view(SArr) if isinstance(r, _np.ndarray) else bool(r)

    def isfinite(self, x):
        r = self._ew1(_isfinite1, x)
        return r.astype(bool).view(SArr) if isinstance(r, _np.ndarray) else bool(r)

    def round(self, x, decimals=0):
        def f(v):
            if is_sym(v):
                return sym_round(v, decimals)
            if isinstance(v, (float, int)):
                return _np.round(v, decimals).item() if v == v else v
            return v
        return self._ew1(f, x)

    around = round

    def isclose(self, a, b, rtol=1e-05, atol=1e-08, equal_nan=False):
        def f(x, y):
            if not (is_sym(x) or is_sym(y)):
                return bool(_np.isclose(x, y, rtol=rtol, atol=atol, equal_nan=equal_nan))
            return abs(x - y) <= atol + rtol * abs(y)
        A, B = _to_arr(a), _to_arr(b)
        r = _np.frompyfunc(f, 2, 1)(_np.asarray(A), _np.asarray(B))
        return r.view(SArr) if isinstance(r, _np.ndarray) else r

    def allclose(self, a, b, rtol=1e-05, atol=1e-08, equal_nan=False):
        return self.all(self.isclose(a, b, rtol, atol, equal_nan))

    def where(self, cond, a=None, b=None):
        if isinstance(cond, QArr):
            af = a.f if isinstance(a, QArr) else (lambda i: a)
            bf = b.f if isinstance(b, QArr) else (lambda i: b)
            cf = cond.f
            return QArr(cond.n, lambda i: sym.ite(cf(i) if isinstance(cf(i), SymBool) else SymBool(to_z3_bool(cf(i))), af(i), bf(i)), 'real')
        if a is None and b is None:
            m = concretise_mask(_to_arr(cond))
            return tuple(x.view(SArr) for x in _np.where(m))
        C, A, B = _np.broadcast_arrays(_np.asarray(_to_arr(cond)), _np.asarray(_to_arr(a)), _np.asarray(_to_arr(b)))
        r = _np.frompyfunc(lambda c, x, y: sym.ite(c, x, y) if isinstance(c, SymBool) else (x if c else y), 3, 1)(C, A, B)
        if isinstance(r, _np.ndarray):
            return r.view(SArr)
        out = _np.empty((), dtype=object)
        out[()] = r
        return out.view(SArr)

    def maximum(self, a, b):
        r = _np.frompyfunc(lambda x, y: sym.smax(x, y), 2, 1)(_np.asarray(_to_arr(a)), _np.asarray(_to_arr(b)))
        return r.view(SArr) if isinstance(r, _np.ndarray) else r

    def minimum(self, a, b):
        r = _np.frompyfunc(lambda x, y: sym.smin(x, y), 2, 1)(_np.asarray(_to_arr(a)), _np.asarray(_to_arr(b)))
        return r.view(SArr) if isinstance(r, _np.ndarray) else r

    def clip(self, a, lo, hi):
        r = a
        if lo is not None:
            r = self.maximum(r, lo)
        if hi is not None:
            r = self.minimum(r, hi)
        return r

    def divide(self, a, b, out=None, where=True):
        A, Bv = _np.asarray(_to_arr(a)), _np.asarray(_to_arr(b))
        if where is True:
            r = (A.view(SArr) / Bv.view(SArr))
            if out is not None:
                out[...] = r
                return out
            return r
        W = concretise_mask(_to_arr(where))
        A, Bv, W = _np.broadcast_arrays(A, Bv, W)
        if out is None:
            out = self.empty(A.shape)
        for idx in _np.ndindex(*A.shape):
            if W[idx]:
                out[idx] = A[idx] / Bv[idx]
        return out

    def subtract(self, a, b):
        return _to_arr(a) - _to_arr(b)

    def copyto(self, dst, src, where=True):
        S = _np.asarray(_to_arr(src))
        if where is True:
            dst[...] = S
            return
        W = concretise_mask(_to_arr(where))
        S, W = _np.broadcast_arrays(S, W)[0:2] if S.shape != dst.shape else (S, W)
        S = _np.broadcast_to(S, dst.shape)
        W = _np.broadcast_to(W, dst.shape)
        for idx in _np.ndindex(*dst.shape):
            if W[idx]:
                dst[idx] = S[idx]

    # -- reductions --------------------------------------------------------------------
    def any(self, x, axis=None):
        if isinstance(x, QArr):
            return x.any()
        a = _np.asarray(_to_arr(x))
        if a.dtype != object:
            return _np.any(a, axis=axis)
        if axis is not None:
            return _reduce_axis(a, axis, lambda items: sym.Or(*items) if items else False)
        items = list(a.reshape(-1))
        return sym.Or(*items) if items else False

    def all(self, x, axis=None):
        if isinstance(x, QArr):
            return x.all()
        a = _np.asarray(_to_arr(x))
        if a.dtype != object:
            return _np.all(a, axis=axis)
        if axis is not None:
            return _reduce_axis(a, axis, lambda items: sym.And(*items) if items else True)
        items = list(a.reshape(-1))
        return sym.And(*items) if items else True

    def min(self, x, axis=None, **k):
        if isinstance(x, QArr):
            return x.min()
        return _to_arr(x).min(axis=axis)

    amin = min

    def max(self, x, axis=None, **k):
        if isinstance(x, QArr):
            return x.max()
        return _to_arr(x).max(axis=axis)

    amax = max

    def nanmin(self, x, axis=None):
        a = _np.asarray(_to_arr(x))

        def f(items):
            items = [i for i in items if not _isnan1(i)]
            if not items:
                return _math.nan
            return sym.smin(items)
        if a.dtype != object:
            return _np.nanmin(a, axis=axis)
        if axis is None:
            return f(list(a.reshape(-1)))
        return _reduce_axis(a, axis, f)

    def sum(self, x, axis=None, **k):
        return _to_arr(x).sum(axis=axis)

    def cumsum(self, x, axis=None, **k):
        if isinstance(x, QArr):
            return x.cumsum()
        return _to_arr(x).cumsum(axis=axis)

    def diff(self, x, n=1, axis=-1):
        return _post(_np.diff(_np.asarray(_to_arr(x)).view(SArr), n=n, axis=axis))

    def argmin(self, x, axis=None):
        a = _np.asarray(_to_arr(x))
        if _is_boolish_obj(a):
            return _np.argmin(concretise_mask(a), axis=axis)
        if a.dtype != object:
            return _np.argmin(a, axis=axis)
        if axis is not None:
            raise EngineError("argmin(axis=...) on symbolic arrays")
        best = 0
        flat = a.reshape(-1)
        for i in range(1, flat.shape[0]):
            if bool(flat[i] < flat[best]):
                best = i
        return best

    def argmax(self, x, axis=None):
        a = _np.asarray(_to_arr(x))
        if _is_boolish_obj(a):
            return _np.argmax(concretise_mask(a), axis=axis)
        if a.dtype != object:
            return _np.argmax(a, axis=axis)
        if axis is not None:
            raise EngineError("argmax(axis=...) on symbolic arrays")
        best = 0
        flat = a.reshape(-1)
        for i in range(1, flat.shape[0]):
            if bool(flat[i] > flat[best]):
                best = i
        return best

    # -- masks / indices ----------------------------------------------------------------
    def flatnonzero(self, m):
        if isinstance(m, QArr):
            return QIndices(m)
        a = _to_arr(m)
        if a.dtype == object:
            a = concretise_mask(a)
        return _np.flatnonzero(_np.asarray(a)).view(SArr)

    def nonzero(self, m):
        a = _to_arr(m)
        if a.dtype == object:
            a = concretise_mask(a)
        return tuple(x.view(SArr) for x in _np.nonzero(_np.asarray(a)))

    def count_nonzero(self, m):
        a = _to_arr(m)
        if a.dtype == object:
            a = concretise_mask(a)
        return int(_np.count_nonzero(_np.asarray(a)))

    # -- ordering ---------------------------------------------------------------------
    def _order(self, flat, kind="asc"):
        """Stable ascending order of a 1-d sequence of possibly symbolic reals (insertion sort, forks)."""
        n = len(flat)
        idx = []
        for i in range(n):
            # find insertion position from the right (stable)
            j = len(idx)
            while j > 0 and _lt(flat[i], flat[idx[j - 1]]):
                j -= 1
            idx.insert(j, i)
        return idx

    def argsort(self, x, axis=-1, kind=None, **k):
        a = _np.asarray(_to_arr(x))
        if a.dtype != object:
            return _np.argsort(a, axis=axis, kind=kind).view(SArr)
        if a.ndim != 1:
            raise EngineError("argsort of an n-d symbolic array")
        return _np.array(self._order(list(a)), dtype=int).view(SArr)

    def sort(self, x, axis=-1, **k):
        a = _np.asarray(_to_arr(x))
        if a.dtype != object:
            return _np.sort(a, axis=axis).view(SArr)
        if a.ndim != 1:
            raise EngineError("sort of an n-d symbolic array")
        idx = self._order(list(a))
        return a[_np.array(idx, dtype=int)].view(SArr)

    def lexsort(self, keys):
        ks = [list(_np.asarray(_to_arr(kx))) for kx in keys]
        n = len(ks[0])
        order = list(range(n))
        for kx in ks:  # last key is primary: successive stable sorts
            sub = [kx[i] for i in order]
            o2 = self._order(sub)
            order = [order[i] for i in o2]
        return _np.array(order, dtype=int).view(SArr)

    def searchsorted(self, a, v, side="left", **k):
        A = list(_np.asarray(_to_arr(a)))
        V = _to_arr(v)

        def one(x):
            # number of elements strictly less (left) / less-or-equal (right); a is assumed sorted ascending
            lo, hi = 0, len(A)
            while lo < hi:
                mid = (lo + hi) // 2
                c = _lt(A[mid], x) if side == "left" else sym_not_b(_lt(x, A[mid]))
                if c:
                    lo = mid + 1
                else:
                    hi = mid
            return lo
        if V.ndim == 0:
            return one(V[()])
        return _np.array([one(x) for x in _np.asarray(V)], dtype=int).view(SArr)

    def unique(self, x, return_index=False, return_inverse=False, return_counts=False, **k):
        if k:
            raise EngineError(f"np.unique with options {sorted(k)}")
        a = _np.asarray(_to_arr(x)).reshape(-1)
        if a.dtype != object:
            r = _np.unique(a, return_index=return_index, return_inverse=return_inverse, return_counts=return_counts)
            return tuple(v.view(SArr) for v in r) if isinstance(r, tuple) else r.view(SArr)
        order = self._order(list(a))          # stable: equal values keep their original order, so the first of a run is the first occurrence
        out, first, counts, inverse = [], [], [], [0] * len(a)
        for i in order:
            e = a[i]
            if not out or not bool(out[-1] == e):
                out.append(e)
                first.append(i)
                counts.append(0)
            counts[-1] += 1
            inverse[i] = len(out) - 1
        res = [_to_arr(out)]
        if return_index:
            res.append(_np.array(first, dtype=int).view(SArr))
        if return_inverse:
            res.append(_np.array(inverse, dtype=int).view(SArr))
        if return_counts:
            res.append(_np.array(counts, dtype=int).view(SArr))
        return tuple(res) if len(res) > 1 else res[0]

    def union1d(self, a, b):
        return self.unique(self.concatenate((_np.asarray(_to_arr(a)).reshape(-1), _np.asarray(_to_arr(b)).reshape(-1))))

    def interp(self, x, xp, fp, left=None, right=None):
        XP = list(_np.asarray(_to_arr(xp)).reshape(-1))
        FP = list(_np.asarray(_to_arr(fp)).reshape(-1))
        n = len(XP)
        if n == 0:
            raise ValueError("array of sample points is empty")
        if not (_has_sym(XP) or _has_sym(FP) or _has_sym(x)):
            return _post(_np.interp(_np.asarray(x, dtype=float), _np.asarray(XP, dtype=float), _np.asarray(FP, dtype=float), left, right))
        for i in range(n - 1):
            if _lt(XP[i + 1], XP[i]):
                raise EngineError("np.interp on non-monotone sample points is not modelled")

        def one(v):
            if _lt(v, XP[0]):
                return FP[0] if left is None else left
            if _lt(XP[-1], v):
                return FP[-1] if right is None else right
            # j = last index with XP[j] <= v
            j = 0
            for i in range(1, n):
                if sym_not_b(_lt(v, XP[i])):
                    j = i
                else:
                    break
            if j == n - 1:
                return FP[-1]
            if _eqb(XP[j], v):
                return FP[j]
            slope = (FP[j + 1] - FP[j]) / (XP[j + 1] - XP[j])
            return slope * (v - XP[j]) + FP[j]
        X = _to_arr(x)
        if X.ndim == 0:
            return one(X[()])
        return _to_arr([one(v) for v in _np.asarray(X).reshape(-1)]).reshape(X.shape)

    def cross(self, a, b):
        A, B = _np.asarray(_to_arr(a)), _np.asarray(_to_arr(b))
        if A.shape[-1] == 2 or B.shape[-1] == 2:
            # numpy >= 2.0 rejects 2-vectors; forward to the installed numpy so the contract sees its behaviour
            return _np.cross(_np.zeros(A.shape), _np.zeros(B.shape))
        raise EngineError("np.cross on 3-vectors of symbolic values")

    def dot(self, a, b):
        return _to_arr(a) @ _to_arr(b)

    def concatenate(self, seq, axis=0, **k):
        parts = [_np.asarray(_to_arr(p)) for p in seq]
        parts = [p.astype(object) if p.dtype.kind == "f" else p for p in parts]
        return _np.concatenate(parts, axis=axis).view(SArr)

    def append(self, a, v, axis=None):
        A, V = _np.asarray(_to_arr(a)), _np.asarray(_to_arr(v))
        if axis is None:
            return self.concatenate((A.reshape(-1), V.reshape(-1)))
        return _np.append(A, V, axis=axis).view(SArr)

    def insert(self, a, idx, v, axis=None):
        if isinstance(a, QArr):
            if not (isinstance(idx, int) and idx == 0):
                raise EngineError('np.insert on a symbolic-length array only at position 0')
            f = a.f
            return QArr(z3.simplify(a.n + 1), lambda i: sym.ite(SymBool(i == 0), v, f(z3.simplify(i - 1))), a.kind)
        A = _np.asarray(_to_arr(a))
        V = _np.asarray(_to_arr(v)) if isinstance(v, (list, tuple, _np.ndarray)) or is_sym(v) else v
        if A.dtype != object and (is_sym(v) or _has_sym(v)):
            A = A.astype(object)
        return _np.insert(A, idx, V, axis=axis).view(SArr)

    def vstack(self, seq):
        return _np.vstack([_np.asarray(_to_arr(p)) for p in seq]).view(SArr)

    def hstack(self, seq):
        return _np.hstack([_np.asarray(_to_arr(p)) for p in seq]).view(SArr)

    def column_stack(self, seq):
        return _np.column_stack([_np.asarray(_to_arr(p)) for p in seq]).view(SArr)

    def stack(self, seq, axis=0):
        return _np.stack([_np.asarray(_to_arr(p)) for p in seq], axis=axis).view(SArr)


def _scalar_arr(v):
    """0-d SArr holding v (numpy returns 0-d arrays / numpy scalars that still have array methods)."""
    a = _np.empty((), dtype=object)
    a[()] = v
    return a.view(SArr)


def _lt(a, b):
    r = a < b
    if isinstance(r, SymBool):
        return bool(r)
    return bool(r)


def _eqb(a, b):
    r = a == b
    return bool(r)


def sym_not_b(x):
    return not x


NP = _NP()


# --------------------------------------------------------------------------------------
# math stand-in
# --------------------------------------------------------------------------------------


class _MATH:
    pi = _math.pi
    e = _math.e
    inf = _math.inf
    nan = _math.nan
    tau = _math.tau

    def __getattr__(self, name):
        return getattr(_math, name)

    def exp(self, x):
        return sym_exp(x)

    def log(self, x, base=None):
        if base is not None:
            return sym_log(x) / sym_log(base)
        return sym_log(x)

    def log10(self, x):
        if is_sym(x):
            return sym_log(x) / _math.log(10.0)
        return _math.log10(x)

    def sqrt(self, x):
        return sym_sqrt(x)

    def pow(self, a, b):
        return sym_pow(a, b)

    def fabs(self, x):
        return abs(x)

    def isnan(self, x):
        return _isnan1(x)

    def isfinite(self, x):
        return _isfinite1(x)

    def isinf(self, x):
        return False if is_sym(x) else _math.isinf(x)

    def isclose(self, a, b, rel_tol=1e-09, abs_tol=0.0):
        if not (is_sym(a) or is_sym(b)):
            return _math.isclose(a, b, rel_tol=rel_tol, abs_tol=abs_tol)
        d = abs(a - b)
        return sym.Or(d <= rel_tol * sym.smax(abs(a), abs(b)), d <= abs_tol)


MATH = _MATH()

BUILTIN_SHIMS = {"float": FloatShim, "set": set_shim, "len": len_shim}
