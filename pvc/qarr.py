"""Arrays of SYMBOLIC LENGTH (the unbounded array domain).

A ``QArr`` is (n, f): a z3 Int term for the length and a closure ``index term -> value``.  Element-wise operators, constant-offset
slices, ``np.insert(x, 0, v)``, masked assignment and ``np.where`` compose closures; reductions introduce fresh symbols with defining
(quantified) axioms that are added to the path solver:

    cumsum   c(0) = x(0)  and  for all 1 <= i < n:  c(i) = c(i-1) + x(i)
    min/max  for all i in range: m <= x(i)   and   m = x(w) for a Skolem index w in range
    any/all  b  <=>  exists / for all i in range: mask(i)     (Skolem witness for the existential direction)
    first / last index of a mask (np.flatnonzero(mask)[0] / [-1])

A contract clause about "every row" is stated at ONE symbolic row index k (0 <= k < n assumed): validity for arbitrary k is validity
for all rows, with no bound on n.  Element closures must be branch-free (ite-based); a closure that would fork raises EngineError.
"""
from __future__ import annotations

import z3

from . import sym
from .sym import EngineError, SymBool, SymInt, SymReal, ctx, lift_int, lift_real, to_z3_bool


def _idx(i):
    return i.z if isinstance(i, SymInt) else (z3.IntVal(int(i)) if isinstance(i, int) else i)


def _val_z(v, kind):
    if kind == "bool":
        return to_z3_bool(v)
    return lift_real(v)


def _wrap(z, kind):
    return SymBool(z) if kind == "bool" else SymReal(z)


class QArr:
    __array_ufunc__ = None
    ndim = 1

    def __init__(self, n, f, kind="real"):
        self.n = _idx(n)
        self.f = f              # z3 Int term -> SymReal / SymBool / python number
        self.kind = kind

    # ---- basic protocol -----------------------------------------------------------------------
    def __symlen__(self):
        return SymInt(self.n)

    @property
    def size(self):
        return SymInt(self.n)

    @property
    def shape(self):
        return (SymInt(self.n),)

    def at(self, i):
        """value at a z3 / SymInt / int index, no bounds obligation (used by contracts and axioms)"""
        iz = _idx(i)
        ctx().register_row_term(iz)
        return self.f(iz)

    def _in_range(self, iz):
        c = ctx()
        if c.decide(z3.Or(iz < 0, iz >= self.n)):
            raise IndexError("index out of bounds for a symbolic-length array")

    def __getitem__(self, k):
        if isinstance(k, QArr) and k.kind == "bool":
            raise EngineError("boolean-mask selection from a symbolic-length array is not modelled")
        if isinstance(k, slice):
            return self._slice(k)
        if isinstance(k, tuple) and len(k) == 2 and isinstance(k[0], slice) and k[0] == slice(None) and k[1] is None:
            f = self.f
            return Q2(self.n, None, lambda i, j: f(i), self.kind)          # x[:, np.newaxis]: a column that broadcasts along the second axis
        if isinstance(k, (int, SymInt)):
            iz = _idx(k)
            if isinstance(k, int) and not isinstance(k, SymInt) and k < 0:
                iz = self.n + k
            self._in_range(iz)
            ctx().register_row_term(iz)
            return self.f(iz)
        raise EngineError(f"index {type(k).__name__} on a symbolic-length array")

    def _slice(self, s):
        def lo_hi():
            start, stop = s.start, s.stop
            lo = z3.IntVal(0) if start is None else (self.n + start if isinstance(start, int) and not isinstance(start, SymInt) and start < 0 else _idx(start))
            hi = self.n if stop is None else (self.n + stop if isinstance(stop, int) and not isinstance(stop, SymInt) and stop < 0 else _idx(stop))
            return lo, hi
        if s.step in (None, 1):
            lo, hi = lo_hi()
            n2 = z3.If(hi - lo > 0, hi - lo, 0)
            f = self.f
            return QArr(z3.simplify(n2), lambda i: f(z3.simplify(i + lo)), self.kind)
        if s.step == -1 and s.start is None and s.stop is None:
            f, n = self.f, self.n
            return QArr(n, lambda i: f(z3.simplify(n - 1 - i)), self.kind)
        raise EngineError("slice with this step on a symbolic-length array")

    def __setitem__(self, k, v):
        old = self.f
        if isinstance(k, QArr) and k.kind == "bool":
            m = k.f
            vf = (v.f if isinstance(v, QArr) else (lambda i: v))
            kind = self.kind
            self.f = lambda i: _wrap(z3.If(to_z3_bool(m(i)), _val_z(vf(i), kind), _val_z(old(i), kind)), kind)
            return
        if isinstance(k, (int, SymInt)):
            iz = _idx(k)
            if isinstance(k, int) and not isinstance(k, SymInt) and k < 0:
                iz = self.n + k
            self._in_range(iz)
            kind = self.kind
            self.f = lambda i: _wrap(z3.If(i == iz, _val_z(v, kind), _val_z(old(i), kind)), kind)
            return
        if isinstance(k, slice) and k.start is None and k.stop is None and k.step is None:
            vf = (v.f if isinstance(v, QArr) else (lambda i: v))
            self.f = vf
            return
        raise EngineError("assignment form not modelled on a symbolic-length array")

    def copy(self):
        return QArr(self.n, self.f, self.kind)

    def fill(self, v):
        self.f = lambda i: v

    def tolist(self):
        return self          # consumers in the verified code only hand the 'list' on to array constructors

    def astype(self, *_a, **_k):
        return self

    def __iter__(self):
        raise EngineError("iteration over a symbolic-length array")

    def __len__(self):
        raise EngineError("len() of a symbolic-length array needs the injected len shim")

    # ---- element-wise ------------------------------------------------------------------------
    def _bin(self, o, op, kind="real", rev=False):
        f = self.f
        if isinstance(o, QArr):
            g = o.f
            return QArr(self.n, (lambda i: op(g(i), f(i))) if rev else (lambda i: op(f(i), g(i))), kind)
        return QArr(self.n, (lambda i: op(o, f(i))) if rev else (lambda i: op(f(i), o)), kind)

    def __add__(self, o): return self._bin(o, lambda a, b: a + b)
    def __radd__(self, o): return self._bin(o, lambda a, b: a + b, rev=True)
    def __sub__(self, o): return self._bin(o, lambda a, b: a - b)
    def __rsub__(self, o): return self._bin(o, lambda a, b: a - b, rev=True)
    def __mul__(self, o): return self._bin(o, _mul)
    def __rmul__(self, o): return self._bin(o, _mul, rev=True)
    def __neg__(self): return QArr(self.n, (lambda f: lambda i: -f(i))(self.f), "real")
    def __lt__(self, o): return self._bin(o, lambda a, b: _sb(a < b), "bool")
    def __le__(self, o): return self._bin(o, lambda a, b: _sb(a <= b), "bool")
    def __gt__(self, o): return self._bin(o, lambda a, b: _sb(a > b), "bool")
    def __ge__(self, o): return self._bin(o, lambda a, b: _sb(a >= b), "bool")
    def __and__(self, o): return self._bin(o, lambda a, b: _sb(a) & _sb(b), "bool")
    def __or__(self, o): return self._bin(o, lambda a, b: _sb(a) | _sb(b), "bool")
    def __invert__(self): return QArr(self.n, (lambda f: lambda i: ~_sb(f(i)))(self.f), "bool")

    def __iadd__(self, o):
        self.f = self._bin(o, lambda a, b: a + b).f
        return self

    def __isub__(self, o):
        self.f = self._bin(o, lambda a, b: a - b).f
        return self

    def __imul__(self, o):
        self.f = self._bin(o, _mul).f
        return self

    def __truediv__(self, o):
        raise EngineError("element-wise division on symbolic-length arrays is not modelled (it forks per element)")

    # ---- reductions ---------------------------------------------------------------------------
    def _forall(self, body):
        """for all i in [0, n): body(i)  as a z3 formula"""
        i = z3.Int(ctx().fresh_name("q"))
        return z3.ForAll([i], z3.Implies(z3.And(i >= 0, i < self.n), body(i)))

    def min(self):
        return self._extreme(lambda m, x: m <= x, "min")

    def max(self):
        return self._extreme(lambda m, x: m >= x, "max")

    def _extreme(self, rel, name):
        c = ctx()
        if c.decide(self.n <= 0):
            raise ValueError("zero-size array to reduction operation which has no identity")
        m = z3.Real(c.fresh_name(name))
        w = z3.Int(c.fresh_name(name + "_at"))
        f = self.f
        c.add_row_axiom(lambda i: rel(m, lift_real(f(i))), z3.IntVal(0), self.n)
        c.register_row_term(w)
        c.add_axiom(z3.And(w >= 0, w < self.n, lift_real(f(w)) == m))
        return SymReal(m)

    def cumsum(self):
        c = ctx()
        cs = z3.Function(c.fresh_name("cumsum"), z3.IntSort(), z3.RealSort())
        f = self.f
        c.add_axiom(z3.Implies(self.n > 0, cs(0) == lift_real(f(z3.IntVal(0)))))
        c.add_row_axiom(lambda i: cs(i) == cs(i - 1) + lift_real(f(i)), z3.IntVal(1), self.n, patterns=[lambda i: cs(i)])
        return QArr(self.n, lambda j: SymReal(cs(j)), "real")

    def any(self):
        c = ctx()
        b = z3.Bool(c.fresh_name("any"))
        w = z3.Int(c.fresh_name("any_at"))
        f = self.f
        c.add_row_axiom(lambda i: z3.Implies(to_z3_bool(f(i)), b), z3.IntVal(0), self.n)
        c.register_row_term(w)
        c.add_axiom(z3.Implies(b, z3.And(w >= 0, w < self.n, to_z3_bool(f(w)))))
        return SymBool(b)

    def all(self):
        c = ctx()
        b = z3.Bool(c.fresh_name("all"))
        w = z3.Int(c.fresh_name("all_at"))
        f = self.f
        c.add_row_axiom(lambda i: z3.Implies(b, to_z3_bool(f(i))), z3.IntVal(0), self.n)
        c.register_row_term(w)
        c.add_axiom(z3.Implies(z3.Not(b), z3.And(w >= 0, w < self.n, z3.Not(to_z3_bool(f(w))))))
        return SymBool(b)


class Q2:
    """rows (symbolic count) x columns (CONCRETE count m, or None while still a broadcastable column): f(i, j) -> value.
    Models the (intervals x streams) activity matrix: comparison / arithmetic against a (1, m) array of per-stream values, & and |,
    and ``matrix @ vector`` as a finite sum per row."""
    __array_ufunc__ = None
    ndim = 2

    def __init__(self, n, m, f, kind="real"):
        self.n, self.m, self.f, self.kind = _idx(n), m, f, kind

    def _other(self, o):
        """-> (m, g(i, j)) for a scalar, a (1, m) / (m,) array of per-column values, or another Q2"""
        if isinstance(o, Q2):
            return o.m, o.f
        if hasattr(o, "shape") and getattr(o, "ndim", 0) >= 1:
            import numpy as _np
            a = _np.asarray(o, dtype=object)
            if a.ndim == 2 and a.shape[0] == 1:
                a = a[0]
            if a.ndim != 1:
                raise EngineError("only (1, m) or (m,) operands combine with a symbolic-rows matrix")
            vals = list(a)
            return len(vals), (lambda i, j: vals[j])
        return None, (lambda i, j: o)

    def _bin(self, o, op, kind="real", rev=False):
        m2, g = self._other(o)
        if self.m is not None and m2 is not None and self.m != m2:
            raise ValueError(f"operands could not be broadcast together: {self.m} vs {m2} columns")
        f = self.f
        return Q2(self.n, self.m if self.m is not None else m2, (lambda i, j: op(g(i, j), f(i, j))) if rev else (lambda i, j: op(f(i, j), g(i, j))), kind)

    def __add__(self, o): return self._bin(o, lambda a, b: a + b)
    def __radd__(self, o): return self._bin(o, lambda a, b: a + b, rev=True)
    def __sub__(self, o): return self._bin(o, lambda a, b: a - b)
    def __rsub__(self, o): return self._bin(o, lambda a, b: a - b, rev=True)
    def __mul__(self, o): return self._bin(o, _mul)
    def __rmul__(self, o): return self._bin(o, _mul, rev=True)
    def __lt__(self, o): return self._bin(o, lambda a, b: _sb(a < b), "bool")
    def __le__(self, o): return self._bin(o, lambda a, b: _sb(a <= b), "bool")
    def __gt__(self, o): return self._bin(o, lambda a, b: _sb(a > b), "bool")
    def __ge__(self, o): return self._bin(o, lambda a, b: _sb(a >= b), "bool")
    def __and__(self, o): return self._bin(o, lambda a, b: _sb(a) & _sb(b), "bool")
    def __rand__(self, o): return self._bin(o, lambda a, b: _sb(a) & _sb(b), "bool", rev=True)
    def __or__(self, o): return self._bin(o, lambda a, b: _sb(a) | _sb(b), "bool")
    def __invert__(self): return Q2(self.n, self.m, (lambda f: lambda i, j: ~_sb(f(i, j)))(self.f), "bool")

    @property
    def shape(self):
        return (SymInt(self.n), self.m)

    def __matmul__(self, v):
        import numpy as _np
        vals = list(_np.asarray(v, dtype=object).ravel())
        if self.m is None or len(vals) != self.m:
            raise ValueError(f"matmul: {self.m} columns against a vector of {len(vals)}")
        f = self.f

        def row(i):
            tot = 0.0
            for j, c in enumerate(vals):
                tot = tot + _mul(f(i, j), c)
            return tot
        return QArr(self.n, row, "real")

    def at(self, i, j):
        return self.f(_idx(i), j)


def _sb(v):
    if isinstance(v, SymBool):
        return v
    if isinstance(v, (bool,)):
        return SymBool(z3.BoolVal(v))
    return SymBool(to_z3_bool(v))


def _mul(a, b):
    # mask * value  (numpy multiplies by True / False)
    if isinstance(a, SymBool):
        return SymReal(z3.If(a.z, lift_real(b), z3.RealVal(0)))
    if isinstance(b, SymBool):
        return SymReal(z3.If(b.z, lift_real(a), z3.RealVal(0)))
    return a * b


class QIndices:
    """Result of np.flatnonzero(mask) for a symbolic-length mask: only [0], [-1] and .size are modelled."""

    def __init__(self, mask: QArr):
        self.mask = mask

    @property
    def size(self):
        # only used as a truth value in the verified code: non-empty iff any(mask)
        return _Truthy(self.mask.any())

    def __getitem__(self, k):
        c = ctx()
        m = self.mask
        has = m.any()
        if not bool(has):
            raise IndexError("index 0 is out of bounds for axis 0 with size 0")
        idx = z3.Int(c.fresh_name("first" if k == 0 else "last"))
        f = m.f
        c.register_row_term(idx)
        if k == 0:
            c.add_axiom(z3.And(idx >= 0, idx < m.n, to_z3_bool(f(idx))))
            c.add_row_axiom(lambda i: z3.Not(to_z3_bool(f(i))), z3.IntVal(0), idx)
        elif k == -1:
            c.add_axiom(z3.And(idx >= 0, idx < m.n, to_z3_bool(f(idx))))
            c.add_row_axiom(lambda i: z3.Not(to_z3_bool(f(i))), idx + 1, m.n)
        else:
            raise EngineError("flatnonzero(...)[k] only for k in (0, -1) on symbolic-length masks")
        return SymInt(idx)


class _Truthy:
    def __init__(self, b):
        self.b = b

    def __bool__(self):
        return bool(self.b)


class QTable:
    """Stand-in for ProblemTable.data (rows x columns) with a symbolic row count: data[:, j] get / set, data[i, j] get / set."""

    def __init__(self, n, ncols, make_col):
        self.n = _idx(n)
        self.cols = [make_col(j) for j in range(ncols)]
        self.shape = (SymInt(self.n), ncols)

    def __getitem__(self, key):
        r, j = key
        if isinstance(r, slice) and r.start is None and r.stop is None:
            return self.cols[j]
        return self.cols[j][r]

    def __setitem__(self, key, v):
        r, j = key
        if isinstance(r, slice) and r.start is None and r.stop is None:
            if isinstance(v, QArr):
                self.cols[j] = QArr(self.n, v.f, v.kind)
            else:
                self.cols[j] = QArr(self.n, (lambda vv: lambda i: vv)(v), "real")
            return
        self.cols[j][r] = v


def fresh_column(name, n, kind="real"):
    """An arbitrary column: an uninterpreted function of the row index."""
    fn = z3.Function(name, z3.IntSort(), z3.RealSort() if kind == "real" else z3.BoolSort())
    return QArr(n, (lambda i: SymReal(fn(i))) if kind == "real" else (lambda i: SymBool(fn(i))), kind)
