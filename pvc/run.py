"""Command-line driver: ``python -m pvc.run <PROPERTY> [--tier quick|thorough] [--replay FILE] [--only SUBSTR]``.

Exit codes: 0 every obligation discharged (recorded findings are printed as KNOWN-FINDING lines),
1 at least one violation, 2 at least one obligation undecided and none violated, 3 checker crash.
"""
from __future__ import annotations

import argparse
import importlib
import json
import multiprocessing as mp
import os
import sys
import time
import traceback

VERIF = os.path.dirname(os.path.dirname(os.path.abspath(__file__)))
sys.path.insert(0, VERIF)
if os.environ.get("PVC_REPO"):
    # self-test only: verify a scratch copy of the repository instead of /repo
    sys.path.insert(0, os.environ["PVC_REPO"])

from pvc import engine  # noqa: E402
from pvc.engine import Obligation, run_obligation  # noqa: E402

TIERS = {"quick": 0, "thorough": 1}

ASSUMPTIONS_COMMON = [
    "A1 floats are mathematical reals (IEEE-754 rounding not modelled); constants enter at their shortest-repr decimal value",
    "A2 numpy/math semantics are those of /verif/pvc/npshim.py (numpy's own ndarray machinery on dtype=object; listed entry points re-implemented; differentially tested, not proved)",
    "A3 symbolic table cells are finite reals; NaN only as a concrete 'unpopulated' marker",
    "A6 termination is not proved",
    "the verifier itself (/verif/pvc) and the z3 / cvc5 kernels are trusted",
]


def load_known():
    p = os.path.join(VERIF, "known_findings.json")
    if not os.path.exists(p):
        return {"findings": [], "fixed": []}
    with open(p) as f:
        return json.load(f)


def _work(args):
    modname, obname, known, tier = args
    try:
        mod = importlib.import_module(modname)
        obs = {o.name: o for o in mod.obligations()}
        return run_obligation(obs[obname], known, tier)
    except BaseException as e:  # noqa
        return {"obligation": obname, "status": "error", "kind": "?", "message": f"{type(e).__name__}: {e}\n{traceback.format_exc(limit=10)}",
                "violations": [], "undecided": [], "known_findings": [], "clauses": {}, "functions": [], "wall_s": 0.0}


def main(argv=None):
    ap = argparse.ArgumentParser()
    ap.add_argument("prop")
    ap.add_argument("--tier", default=os.environ.get("VERIF_TIER", "quick"), choices=["quick", "thorough"])
    ap.add_argument("--replay", default=None)
    ap.add_argument("--only", default=None)
    ap.add_argument("--jobs", type=int, default=int(os.environ.get("PVC_JOBS", "16")))
    ap.add_argument("--no-evidence", action="store_true")
    ap.add_argument("-v", action="store_true")
    a = ap.parse_args(argv)
    t0 = time.time()
    seed = int(os.environ.get("VERIF_SEED", "0") or 0)
    prop = a.prop
    modname = f"contracts.{prop}"
    try:
        mod = importlib.import_module(modname)
        obs = [o for o in mod.obligations() if TIERS[o.tier] <= TIERS[a.tier]]
    except Exception:
        traceback.print_exc()
        print(f"CRASH property={prop} cannot load contracts")
        return 3
    if a.replay:
        return do_replay(prop, mod, a.replay)
    if a.only:
        obs = [o for o in obs if a.only in o.name]
    if not obs:
        print(f"CRASH property={prop} zero obligations generated")
        return 3
    kn = load_known()
    known = [k for k in kn.get("findings", []) if k.get("property") == prop or prop in k.get("also_properties", [])]
    jobs = [(modname, o.name, known, a.tier) for o in obs]
    ctxm = mp.get_context("fork")
    results = []
    with ctxm.Pool(min(a.jobs, len(jobs)), maxtasksperchild=1) as pool:
        for r in pool.imap_unordered(_work, jobs, chunksize=1):
            results.append(r)
            if a.v:
                slow = {k: v.get("max_query_s") for k, v in r.get("clauses", {}).items() if v.get("max_query_s", 0) > 1.0}
                print(f"  .. {r['obligation']}: {r['status']} ({r.get('wall_s', 0):.1f}s) slow={slow}", flush=True)
    order = {o.name: i for i, o in enumerate(obs)}
    results.sort(key=lambda r: order.get(r["obligation"], 0))
    return report(prop, mod, a.tier, seed, obs, results, known, t0, write=not (a.no_evidence or a.only))


def report(prop, mod, tier, seed, obs, results, known, t0, write=True):
    n_viol = 0
    n_undec = 0
    n_err = 0
    lines = []
    replay_dir = os.path.join(VERIF, "replays", prop)
    viol_records = []
    printed_kf = set()
    for r in results:
        name = r["obligation"]
        st = r["status"]
        stats = r.get("stats", {})
        for kf in r.get("known_findings", []):
            if kf.get("still_fails") and kf["id"] not in printed_kf:
                printed_kf.add(kf["id"])
                lines.append(f"KNOWN-FINDING: property={prop} {kf['id']} {kf['what']}")
        if st == "discharged":
            lines.append(f"OK {name} [{r['kind']}{'/' + r['bound'] if r.get('bound') else ''}] paths={stats.get('paths', '-')} queries={stats.get('queries', '-')} solver={stats.get('solver_s', 0):.2f}s"
                         + (f" PARTIAL (held on every path explored; {r['partial']})" if r.get("partial") else ""))
        elif st == "violated":
            for v in r["violations"]:
                n_viol += 1
                os.makedirs(replay_dir, exist_ok=True)
                path = os.path.join(replay_dir, f"{name}.{v['clause']}.json".replace("/", "_"))
                rec = {"property": prop, "obligation": name, "clause": v["clause"], "input": v.get("input"), "observed": v.get("observed"),
                       "solver_output": v.get("solver"), "functions": r.get("functions"), "tier": tier,
                       "how_to_replay": f"bin/check {prop} --replay {path}"}
                with open(path, "w") as f:
                    json.dump(rec, f, indent=1, default=str)
                tail = "" if v.get("input") is not None else " no-failing-input-found"
                lines.append(f"VIOLATION property={prop} replay={path}{tail}")
                lines.append(f"   obligation {name} clause {v['clause']}: {v.get('observed')} input={json.dumps(v.get('input'), default=str)[:400]}")
                viol_records.append(rec)
        elif st == "undecided":
            n_undec += 1
            for u in r["undecided"]:
                lines.append(f"UNDECIDED {name} clause {u['clause']}: {u['why']} {str(u.get('info', ''))[:600]}")
        else:
            n_err += 1
            lines.append(f"ERROR {name}: {r.get('message', '')[:1500]}")
    for ln in lines:
        print(ln)
    wall = time.time() - t0
    if write:
        write_evidence(prop, mod, tier, seed, obs, results, known, wall, n_viol)
    n_ob = len(results)
    n_dis = sum(1 for r in results if r["status"] == "discharged")
    print(f"SUMMARY property={prop} tier={tier} obligations={n_ob} discharged={n_dis} violated={n_viol} undecided={n_undec} errors={n_err} wall={wall:.1f}s")
    if n_viol:
        return 1
    if n_err:
        return 3
    if n_undec:
        return 2
    return 0


def write_evidence(prop, mod, tier, seed, obs, results, known, wall, n_viol):
    level = getattr(mod, "LEVEL", "proof")
    proofish = [r for r in results if r["kind"] in ("proof", "lemma", "frame", "lean")]
    bounded = [r for r in results if r["kind"] not in ("proof", "lemma", "frame", "lean")]
    counted = proofish if level == "proof" else results
    paths = sum(r.get("stats", {}).get("paths", 0) for r in results)
    evals = sum(r.get("stats", {}).get("evaluations", r.get("stats", {}).get("paths", 0)) for r in results)
    nontriv = sum(r.get("stats", {}).get("distinct_nontrivial", r.get("stats", {}).get("paths", 0)) for r in results)
    fns = {}
    for r in results:
        for f in r.get("functions", []):
            fns[(f.get("file"), f.get("function"))] = f
    backends = sorted({b for r in results for b in r.get("backends", ["z3 5.1 (python API)"])})
    stubs = sorted({s for r in results for s in r.get("stubs", [])})
    assumptions = list(ASSUMPTIONS_COMMON) + list(getattr(mod, "ASSUMPTIONS", []))
    for r in results:
        for s in r.get("assumptions", []):
            if s not in assumptions:
                assumptions.append(s)
    for s in stubs:
        assumptions.append(f"assumed contract (stub) for {s}")
    samples = []
    for r in results[:40]:
        samples.append({"obligation": r["obligation"], "kind": r["kind"], "bound": r.get("bound"), "status": r["status"],
                        "paths": r.get("stats", {}).get("paths"), "clauses": {k: v.get("verdict") for k, v in r.get("clauses", {}).items()},
                        "doc": r.get("doc", "")})
    cov = {
        "obligations": len(counted),
        "discharged": sum(1 for r in counted if r["status"] == "discharged"),
        "checker_cmd": f"bin/check {prop} --tier {tier}",
        "trusted_base": ["/verif/pvc (symbolic executor, numpy/math shims, loop cutter)", "z3 5.1", "cvc5 1.0 (second opinion on unknown)"]
        + list(getattr(mod, "TRUSTED", [])),
        "evaluations": int(evals),
        "distinct_nontrivial": int(nontriv),
        "rule": "one evaluation = one feasible execution path of a proof harness through the real function (path conditions are pairwise disjoint, "
                "hence distinct); non-trivial = the path reached at least one postcondition clause or raised; for enumerating back ends the "
                "contract module states its own rule",
        "samples": samples,
        "functions_under_contract": list(fns.values()),
        "unbounded_or_path_complete": [{"obligation": r["obligation"], "status": r["status"], "paths": r.get("stats", {}).get("paths"),
                                          "solver_s": round(r.get("stats", {}).get("solver_s", 0.0), 3)} for r in proofish],
        "bounded": [{"obligation": r["obligation"], "bound": r.get("bound"), "status": r["status"], "paths": r.get("stats", {}).get("paths"),
                     "queries": r.get("stats", {}).get("queries"), "exhaustive_within_bound": r["status"] == "discharged" and not r.get("stats", {}).get("budget_hit"),
                     **({"budget_exhausted": r["partial"]} if r.get("partial") else {})}
                    for r in bounded],
        "backends": backends,
        "solver_s": round(sum(r.get("stats", {}).get("solver_s", 0.0) for r in results), 3),
        "paths": paths,
        "stubs": stubs,
        "known_findings": [kf for r in results for kf in r.get("known_findings", [])],
        "undecided": [{"obligation": r["obligation"], "items": r["undecided"]} for r in results if r.get("undecided")],
        "not_covered": list(getattr(mod, "NOT_COVERED", [])),
        "exhaustive": False,
    }
    ev = {"property_id": prop, "tier": tier, "seed": seed, "level": level, "coverage": cov, "assumptions": assumptions,
          "wall_s": round(wall, 2), "violations": n_viol}
    os.makedirs(os.path.join(VERIF, "evidence"), exist_ok=True)
    with open(os.path.join(VERIF, "evidence", f"{prop}.json"), "w") as f:
        json.dump(ev, f, indent=1, default=str)


def do_replay(prop, mod, path):
    with open(path) as f:
        rec = json.load(f)
    obs = {o.name: o for o in mod.obligations()}
    ob = obs.get(rec["obligation"])
    if ob is None:
        print(f"unknown obligation {rec['obligation']}")
        return 3
    if rec.get("input") is None:
        print(f"obligation {ob.name} failed without a concrete input; solver output:\n{rec.get('solver_output')}")
        return 1
    if ob.runner is not None:
        r = ob.runner(ob, {"known": [], "tier": "quick", "replay": rec})
        print(json.dumps(r, indent=1, default=str)[:3000])
        return 1 if r.get("status") == "violated" else 0
    st, failing, detail = engine.replay_concrete(ob, rec["input"], (), "quick", ignore_exclusions=True)
    print(f"replay of {ob.name} on {json.dumps(rec['input'])}: {st} failing={failing} {detail}")
    if st in ("failed", "raised") and rec["clause"] in failing:
        print(f"VIOLATION property={prop} replay={path}")
        return 1
    return 0


if __name__ == "__main__":
    try:
        rc = main()
    except SystemExit:
        raise
    except BaseException:
        traceback.print_exc()
        rc = 3
    sys.exit(rc)
