"""Symbolic scalar proxies and the path explorer (re-execution DSE).

The code under verification is the *real* function object imported from /repo.
It is executed on proxy values:

* ``SymReal`` is a subclass of ``float`` that carries a z3 Real term.  Its own
  float payload is NaN so that any place where CPython or numpy silently reads
  the C double instead of calling an operator poisons the result visibly.
* ``SymBool`` carries a z3 Bool term; ``bool(SymBool)`` asks the explorer which
  branch to take (classic dynamic symbolic execution with re-execution).
* ``SymInt`` is a subclass of ``int`` carrying a z3 Int term (row counts and
  indices of the unbounded array domain).

Floats are modelled as mathematical reals (assumption A1 of DESIGN.md).
"""
from __future__ import annotations

import builtins
import math as _math
import time
import warnings
from fractions import Fraction

import numpy as _np
import z3

warnings.filterwarnings("ignore", category=DeprecationWarning)

_NAN = float("nan")


class PathAbort(Exception):
    """The current path is infeasible (an assumption is unsatisfiable)."""


class EngineError(Exception):
    """The engine met something it does not model.  Never a verdict."""


class PathBudget(Exception):
    pass


# --------------------------------------------------------------------------------------
# Execution context
# --------------------------------------------------------------------------------------


def _quantifier_free(f):
    seen = set()
    stack = [f]
    while stack:
        e = stack.pop()
        if z3.is_quantifier(e):
            return False
        i = e.get_id()
        if i in seen:
            continue
        seen.add(i)
        stack.extend(e.children())
    return True


class Ctx:
    """State of one symbolic execution path."""

    current: "Ctx | None" = None

    def __init__(self, prefix=(), timeout_ms=10000, feas_timeout_ms=3000):
        self.prefix = list(prefix)
        self.trail: list[bool] = []
        self.pc: list = []
        self.pending: list[list[bool]] = []
        self.solver = z3.Solver()
        self.solver.set("timeout", feas_timeout_ms)
        self.timeout_ms = timeout_ms
        self.fresh_n = 0
        self.axioms: list = []          # ground axioms about uninterpreted symbols
        self.trans: dict = {}           # kind -> list of (arg term, result term)
        self.rnd: dict = {}             # digits -> list of (arg, result)
        self.queries = 0
        self.solver_s = 0.0
        self.unknown_feas = 0
        self.n_decisions = 0
        self.notes: list[str] = []
        # quantifier-free twin of the path solver: everything except quantified formulas, plus hand-made instances of the row axioms
        self.qf = z3.Solver()
        self.has_quant = False
        self.row_axioms: list = []      # (P: z3 Int -> z3 Bool, lo, hi)  meaning  for all lo <= i < hi: P(i)
        self.row_terms: list = []       # z3 Int terms at which every row axiom is instantiated
        self._instantiating = False

    # -- row axioms (quantified facts over the rows of symbolic-length arrays) ---------------
    def _row_instance(self, P, lo, hi, t):
        self._instantiating = True
        try:
            return z3.Implies(z3.And(t >= lo, t < hi), P(t))
        finally:
            self._instantiating = False

    def add_row_axiom(self, P, lo, hi, patterns=None):
        """for all lo <= i < hi: P(i).  The path solver gets the quantified formula, the quantifier-free twin gets the instances at
        every registered row term (each instance is a consequence of the quantified formula)."""
        self.row_axioms.append((P, lo, hi))
        i = z3.Int(self.fresh_name("q"))
        self._instantiating = True
        try:
            body = z3.Implies(z3.And(i >= lo, i < hi), P(i))
            pats = [p(i) for p in patterns] if patterns else []
        finally:
            self._instantiating = False
        self.has_quant = True
        q = z3.ForAll([i], body, patterns=pats) if pats else z3.ForAll([i], body)
        self.axioms.append(q)
        self.solver.add(q)
        self.model = None
        for t in list(self.row_terms):
            self.qf.add(self._row_instance(P, lo, hi, t))

    def register_row_term(self, t):
        if self._instantiating:
            return
        t = z3.simplify(t) if not z3.is_int_value(t) else t
        for u in self.row_terms:
            if u.eq(t):
                return
        self.row_terms.append(t)
        for P, lo, hi in list(self.row_axioms):
            self.qf.add(self._row_instance(P, lo, hi, t))

    def row_instances(self, terms):
        return [self._row_instance(P, lo, hi, t) for t in terms for P, lo, hi in self.row_axioms]

    # -- fresh symbols -----------------------------------------------------------
    def fresh_name(self, base):
        self.fresh_n += 1
        return f"{base}!{self.fresh_n}"

    def fresh_real(self, base="r"):
        return SymReal(z3.Real(self.fresh_name(base)))

    def fresh_int(self, base="i"):
        return SymInt(z3.Int(self.fresh_name(base)))

    def fresh_bool(self, base="b"):
        return SymBool(z3.Bool(self.fresh_name(base)))

    # -- assumptions ----------------------------------------------------------------
    def assume(self, f):
        f = to_z3_bool(f)
        if z3.is_true(f):
            return
        self.pc.append(f)
        self.solver.add(f)
        if _quantifier_free(f):
            self.qf.add(f)
        else:
            self.has_quant = True
        m = getattr(self, "model", None)
        if m is not None:
            try:
                if not z3.is_true(m.eval(f, model_completion=True)):
                    self.model = None
            except z3.Z3Exception:
                self.model = None

    def add_axiom(self, f):
        """Ground fact about an uninterpreted symbol; part of every later query."""
        self.axioms.append(f)
        self.solver.add(f)
        if _quantifier_free(f):
            self.qf.add(f)
        else:
            self.has_quant = True
        self.model = None

    def _check(self, *extra):
        t0 = time.time()
        self.queries += 1
        r = self.solver.check(*extra)
        self.solver_s += time.time() - t0
        return r

    # -- branching --------------------------------------------------------------------
    def decide(self, cond) -> bool:
        cond = z3.simplify(cond)
        if z3.is_true(cond):
            return True
        if z3.is_false(cond):
            return False
        i = len(self.trail)
        self.n_decisions += 1
        if i < len(self.prefix):
            choice = self.prefix[i]
            self.model = None
        else:
            # a model of the current path condition decides one side for free
            known = None
            m = getattr(self, "model", None)
            if m is not None:
                try:
                    v = m.eval(cond, model_completion=True)
                    if z3.is_true(v):
                        known = True
                    elif z3.is_false(v):
                        known = False
                except z3.Z3Exception:
                    known = None
            m_t = m_f = None
            if known is True:
                r_t, m_t = z3.sat, m
            else:
                r_t = self._check_branch(cond)
                if r_t == z3.sat:
                    m_t = self.solver.model()
            if known is False:
                r_f, m_f = z3.sat, m
            else:
                r_f = self._check_branch(z3.Not(cond))
                if r_f == z3.sat:
                    m_f = self.solver.model()
            if r_t == z3.unknown or r_f == z3.unknown:
                self.unknown_feas += 1
            can_t = r_t != z3.unsat
            can_f = r_f != z3.unsat
            if can_t and can_f:
                choice = True
                self.pending.append(self.trail + [False])
            elif can_t:
                choice = True
            elif can_f:
                choice = False
            else:
                raise PathAbort()
            self.model = m_t if choice else m_f
        self.trail.append(choice)
        f = cond if choice else z3.Not(cond)
        self.pc.append(f)
        self.solver.add(f)
        if _quantifier_free(f):
            self.qf.add(f)
        return choice

    def _check_branch(self, cond):
        """feasibility of one side of a branch; with quantified axioms on the path the quantifier-free twin is asked first: its
        'unsat' is conclusive (it holds a subset of the path's assumptions), anything else goes to the path solver"""
        if self.has_quant:
            t0 = time.time()
            self.qf.push()
            self.qf.add(cond)
            self.qf.set("timeout", 3000)
            r = self.qf.check()
            self.qf.pop()
            self.queries += 1
            self.solver_s += time.time() - t0
            if r == z3.unsat:
                return z3.unsat
        return self._check(cond)


def ctx() -> Ctx:
    c = Ctx.current
    if c is None:
        raise EngineError("symbolic value used outside an exploration")
    return c


# --------------------------------------------------------------------------------------
# Lifting
# --------------------------------------------------------------------------------------


def is_sym(x) -> bool:
    return isinstance(x, (SymReal, SymBool, SymInt))


def lift_real(v):
    """Python/numpy number or proxy -> z3 Real term."""
    if isinstance(v, SymReal):
        return v.z
    if isinstance(v, SymInt):
        return z3.ToReal(v.z)
    if isinstance(v, SymBool):
        return z3.If(v.z, z3.RealVal(1), z3.RealVal(0))
    if isinstance(v, (bool, _np.bool_)):
        return z3.RealVal(1 if v else 0)
    if isinstance(v, (int, _np.integer)):
        return z3.RealVal(int(v))
    if isinstance(v, (float, _np.floating)):
        f = builtins.float(v)
        if f != f or f in (_math.inf, -_math.inf):
            raise EngineError(f"non-finite constant {f!r} met in symbolic arithmetic")
        return z3.RealVal(str(Fraction(repr(f))))
    if isinstance(v, Fraction):
        return z3.RealVal(str(v))
    if z3.is_expr(v):
        if v.sort() == z3.IntSort():
            return z3.ToReal(v)
        return v
    raise EngineError(f"cannot lift {type(v).__name__} to a real term")


def lift_int(v):
    if isinstance(v, SymInt):
        return v.z
    if isinstance(v, (bool, _np.bool_)):
        return z3.IntVal(1 if v else 0)
    if isinstance(v, (int, _np.integer)):
        return z3.IntVal(int(v))
    if z3.is_expr(v) and v.sort() == z3.IntSort():
        return v
    raise EngineError(f"cannot lift {type(v).__name__} to an int term")


def to_z3_bool(v):
    if isinstance(v, SymBool):
        return v.z
    if isinstance(v, (bool, _np.bool_)):
        return z3.BoolVal(bool(v))
    if z3.is_expr(v) and z3.is_bool(v):
        return v
    if isinstance(v, (SymReal, SymInt)):
        return lift_real(v) != 0
    if isinstance(v, (int, float)):
        return z3.BoolVal(bool(v))
    raise EngineError(f"cannot lift {type(v).__name__} to a bool term")


def _is_arr(o):
    return isinstance(o, _np.ndarray)


def _inf_sign(o):
    """+1 / -1 for a concrete +inf / -inf, else 0 (symbolic cells are finite reals: assumption A3)."""
    if isinstance(o, (float, _np.floating)) and not isinstance(o, SymReal):
        f = builtins.float(o)
        if f == _math.inf:
            return 1
        if f == -_math.inf:
            return -1
    return 0


def _numlike(o):
    return isinstance(o, (int, float, _np.integer, _np.floating, SymReal, SymInt, SymBool, bool, _np.bool_, Fraction))


def _elementwise(fn, arr):
    from .npshim import SArr  # local import (cycle)

    out = _np.empty(arr.shape, dtype=object)
    flat_in = arr.reshape(-1) if arr.ndim else arr.reshape(1)
    flat_out = out.reshape(-1)
    for i in range(flat_in.shape[0]):
        flat_out[i] = fn(flat_in[i])
    return out.view(SArr)


def wrap_real(z):
    """z3 term -> SymReal, or a python float when the term is a numeral."""
    z = z3.simplify(z)
    return SymReal(z)


# --------------------------------------------------------------------------------------
# SymBool
# --------------------------------------------------------------------------------------


class SymBool:
    __slots__ = ("z",)
    __array_ufunc__ = None

    def __init__(self, z):
        self.z = z

    def __bool__(self):
        return ctx().decide(self.z)

    def _other(self, o):
        if _is_arr(o):
            return None
        return to_z3_bool(o)

    def __and__(self, o):
        if _is_arr(o):
            return _elementwise(lambda x: self & x, o)
        return SymBool(z3.And(self.z, to_z3_bool(o)))

    __rand__ = __and__

    def __or__(self, o):
        if _is_arr(o):
            return _elementwise(lambda x: self | x, o)
        return SymBool(z3.Or(self.z, to_z3_bool(o)))

    __ror__ = __or__

    def __xor__(self, o):
        return SymBool(z3.Xor(self.z, to_z3_bool(o)))

    __rxor__ = __xor__

    def __invert__(self):
        return SymBool(z3.Not(self.z))

    def __eq__(self, o):
        if isinstance(o, (SymBool, bool, _np.bool_)):
            return SymBool(self.z == to_z3_bool(o))
        return NotImplemented

    def __ne__(self, o):
        if isinstance(o, (SymBool, bool, _np.bool_)):
            return SymBool(self.z != to_z3_bool(o))
        return NotImplemented

    __hash__ = None

    # arithmetic use of masks (True == 1)
    def _as_real(self):
        return SymReal(z3.If(self.z, z3.RealVal(1), z3.RealVal(0)))

    def __mul__(self, o):
        return self._as_real() * o

    __rmul__ = __mul__

    def __add__(self, o):
        return self._as_real() + o

    __radd__ = __add__

    def __repr__(self):
        return f"<SymBool {z3.simplify(self.z)}>"


def sym_not(x):
    if isinstance(x, SymBool):
        return ~x
    return not x


# --------------------------------------------------------------------------------------
# SymReal
# --------------------------------------------------------------------------------------


def _fork_zero(den_z):
    """Fork on 'denominator == 0' and raise the real exception on that path."""
    if ctx().decide(den_z == 0):
        raise ZeroDivisionError("float division by zero")


class SymReal(float):
    __array_ufunc__ = None
    __array_priority__ = 1000

    def __new__(cls, z):
        o = float.__new__(cls, _NAN)
        o.z = z
        return o

    # --- helpers ------------------------------------------------------------
    def _bin(self, o, f):
        if _is_arr(o):
            return _elementwise(lambda x: f(self, x), o)
        if not _numlike(o):
            return NotImplemented
        return f(self, o)

    # --- arithmetic ---------------------------------------------------------
    def __add__(self, o):
        if _is_arr(o):
            return _elementwise(lambda x: self + x, o)
        if not _numlike(o):
            return NotImplemented
        return SymReal(self.z + lift_real(o))

    def __radd__(self, o):
        if _is_arr(o):
            return _elementwise(lambda x: x + self, o)
        if not _numlike(o):
            return NotImplemented
        return SymReal(lift_real(o) + self.z)

    def __sub__(self, o):
        if _is_arr(o):
            return _elementwise(lambda x: self - x, o)
        if not _numlike(o):
            return NotImplemented
        return SymReal(self.z - lift_real(o))

    def __rsub__(self, o):
        if _is_arr(o):
            return _elementwise(lambda x: x - self, o)
        if not _numlike(o):
            return NotImplemented
        return SymReal(lift_real(o) - self.z)

    def __mul__(self, o):
        if _is_arr(o):
            return _elementwise(lambda x: self * x, o)
        if not _numlike(o):
            return NotImplemented
        return SymReal(self.z * lift_real(o))

    def __rmul__(self, o):
        if _is_arr(o):
            return _elementwise(lambda x: x * self, o)
        if not _numlike(o):
            return NotImplemented
        return SymReal(lift_real(o) * self.z)

    def __truediv__(self, o):
        if _is_arr(o):
            return _elementwise(lambda x: self / x, o)
        if not _numlike(o):
            return NotImplemented
        return sym_div(self, o)

    def __rtruediv__(self, o):
        if _is_arr(o):
            return _elementwise(lambda x: x / self, o)
        if not _numlike(o):
            return NotImplemented
        return sym_div(o, self)

    def __pow__(self, o, mod=None):
        if _is_arr(o):
            return _elementwise(lambda x: self ** x, o)
        return sym_pow(self, o)

    def __rpow__(self, o, mod=None):
        return sym_pow(o, self)

    def __neg__(self):
        return SymReal(-self.z)

    def __pos__(self):
        return self

    def __abs__(self):
        return SymReal(z3.If(self.z >= 0, self.z, -self.z))

    def __floordiv__(self, o):
        raise EngineError("floor division of a symbolic real is not modelled")

    __rfloordiv__ = __floordiv__

    def __mod__(self, o):
        raise EngineError("modulo of a symbolic real is not modelled")

    __rmod__ = __mod__

    # --- comparisons ----------------------------------------------------------
    def __lt__(self, o):
        if _is_arr(o):
            return _elementwise(lambda x: self < x, o)
        if not _numlike(o):
            return NotImplemented
        i = _inf_sign(o)
        if i:
            return i > 0
        return SymBool(self.z < lift_real(o))

    def __le__(self, o):
        if _is_arr(o):
            return _elementwise(lambda x: self <= x, o)
        if not _numlike(o):
            return NotImplemented
        i = _inf_sign(o)
        if i:
            return i > 0
        return SymBool(self.z <= lift_real(o))

    def __gt__(self, o):
        if _is_arr(o):
            return _elementwise(lambda x: self > x, o)
        if not _numlike(o):
            return NotImplemented
        i = _inf_sign(o)
        if i:
            return i < 0
        return SymBool(self.z > lift_real(o))

    def __ge__(self, o):
        if _is_arr(o):
            return _elementwise(lambda x: self >= x, o)
        if not _numlike(o):
            return NotImplemented
        i = _inf_sign(o)
        if i:
            return i < 0
        return SymBool(self.z >= lift_real(o))

    def __eq__(self, o):
        if _is_arr(o):
            return _elementwise(lambda x: self == x, o)
        if o is None or isinstance(o, str):
            return False
        if not _numlike(o):
            return NotImplemented
        if isinstance(o, float) and not isinstance(o, SymReal) and o != o:
            return False
        return SymBool(self.z == lift_real(o))

    def __ne__(self, o):
        if _is_arr(o):
            return _elementwise(lambda x: self != x, o)
        if o is None or isinstance(o, str):
            return True
        if not _numlike(o):
            return NotImplemented
        if isinstance(o, float) and not isinstance(o, SymReal) and o != o:
            return True
        return SymBool(self.z != lift_real(o))

    def __hash__(self):
        raise EngineError("hash() of a symbolic real (set/dict key) is not modelled here")

    def __bool__(self):
        return ctx().decide(self.z != 0)

    # --- conversions ----------------------------------------------------------
    def __float__(self):
        return self

    def __int__(self):
        raise EngineError("int() of a symbolic real is not modelled")

    __index__ = None
    __trunc__ = __int__

    def __round__(self, ndigits=None):
        if ndigits is None:
            raise EngineError("round(x) to int of a symbolic real is not modelled")
        return sym_round(self, int(ndigits))

    def round(self, ndigits=0):  # numpy object-array protocol
        return sym_round(self, int(ndigits))

    def is_integer(self):
        raise EngineError("is_integer() of a symbolic real")

    def __copy__(self):
        return self

    def __deepcopy__(self, memo):
        return self

    def __reduce__(self):
        raise EngineError("pickling a symbolic real")

    # numpy calls these methods for object arrays (np.log(arr) -> x.log())
    def log(self):
        return sym_log(self)

    def exp(self):
        return sym_exp(self)

    def sqrt(self):
        return sym_sqrt(self)

    def conjugate(self):
        return self

    def __repr__(self):
        return f"<SymReal {z3.simplify(self.z)}>"

    __str__ = __repr__

    def __format__(self, spec):
        return repr(self)


def sym_div(a, b):
    bz = lift_real(b)
    bs = z3.simplify(bz)
    if z3.is_rational_value(bs):
        if bs.numerator_as_long() == 0:
            raise ZeroDivisionError("float division by zero")
    else:
        _fork_zero(bz)
    az = lift_real(a)
    # (x * d) / d  ->  x   (d != 0 on this path: the fork above); keeps heat-capacity flow rates polynomial
    an = z3.simplify(az)
    if z3.is_mul(an) and not z3.is_rational_value(bs):
        kids = list(an.children())
        for i, k in enumerate(kids):
            if k.eq(bs) or z3.simplify(k - bs).eq(z3.RealVal(0)):
                rest = kids[:i] + kids[i + 1:]
                out = rest[0]
                for r in rest[1:]:
                    out = out * r
                return SymReal(out)
    return SymReal(az / bz)


# --------------------------------------------------------------------------------------
# SymInt
# --------------------------------------------------------------------------------------


class SymInt(int):
    __array_ufunc__ = None

    def __new__(cls, z):
        o = int.__new__(cls, -(10**9) - 7)
        o.z = z
        return o

    def _lift(self, o):
        if isinstance(o, (SymReal, float)) and not isinstance(o, bool):
            return None
        return lift_int(o)

    def __add__(self, o):
        if isinstance(o, (SymReal, float)):
            return SymReal(lift_real(self) + lift_real(o))
        return SymInt(self.z + lift_int(o))

    __radd__ = __add__

    def __sub__(self, o):
        if isinstance(o, (SymReal, float)):
            return SymReal(lift_real(self) - lift_real(o))
        return SymInt(self.z - lift_int(o))

    def __rsub__(self, o):
        if isinstance(o, (SymReal, float)):
            return SymReal(lift_real(o) - lift_real(self))
        return SymInt(lift_int(o) - self.z)

    def __mul__(self, o):
        if isinstance(o, (SymReal, float)):
            return SymReal(lift_real(self) * lift_real(o))
        return SymInt(self.z * lift_int(o))

    __rmul__ = __mul__

    def __neg__(self):
        return SymInt(-self.z)

    def __truediv__(self, o):
        return sym_div(self, o)

    def __rtruediv__(self, o):
        return sym_div(o, self)

    def __lt__(self, o):
        return SymBool(lift_real(self) < lift_real(o)) if isinstance(o, (SymReal, float)) else SymBool(self.z < lift_int(o))

    def __le__(self, o):
        return SymBool(lift_real(self) <= lift_real(o)) if isinstance(o, (SymReal, float)) else SymBool(self.z <= lift_int(o))

    def __gt__(self, o):
        return SymBool(lift_real(self) > lift_real(o)) if isinstance(o, (SymReal, float)) else SymBool(self.z > lift_int(o))

    def __ge__(self, o):
        return SymBool(lift_real(self) >= lift_real(o)) if isinstance(o, (SymReal, float)) else SymBool(self.z >= lift_int(o))

    def __eq__(self, o):
        if o is None or isinstance(o, str):
            return False
        return SymBool(lift_real(self) == lift_real(o)) if isinstance(o, (SymReal, float)) else SymBool(self.z == lift_int(o))

    def __ne__(self, o):
        if o is None or isinstance(o, str):
            return True
        return SymBool(lift_real(self) != lift_real(o)) if isinstance(o, (SymReal, float)) else SymBool(self.z != lift_int(o))

    def __hash__(self):
        raise EngineError("hash() of a symbolic int")

    def __bool__(self):
        return ctx().decide(self.z != 0)

    def __int__(self):
        return self

    def __index__(self):
        raise EngineError("a symbolic int was used as a concrete index")

    def __abs__(self):
        return SymInt(z3.If(self.z >= 0, self.z, -self.z))

    def __repr__(self):
        return f"<SymInt {z3.simplify(self.z)}>"

    __str__ = __repr__

    def __format__(self, spec):
        return repr(self)

    def __deepcopy__(self, memo):
        return self


# --------------------------------------------------------------------------------------
# Uninterpreted functions: rounding and transcendentals
# --------------------------------------------------------------------------------------

_F_EXP = z3.Function("exp", z3.RealSort(), z3.RealSort())
_F_LOG = z3.Function("ln", z3.RealSort(), z3.RealSort())
_F_SQRT = z3.Function("sqrt", z3.RealSort(), z3.RealSort())
_F_POW = z3.Function("pow", z3.RealSort(), z3.RealSort(), z3.RealSort())


def _F_RND(k):
    return z3.Function(f"rnd{k}", z3.RealSort(), z3.RealSort())


def _P_GRID(k):
    return z3.Function(f"ongrid{k}", z3.RealSort(), z3.BoolSort())


def ongrid(x, k=6):
    """Ghost predicate: x is a multiple of 10**-k (so k-digit rounding is the identity)."""
    if not isinstance(x, SymReal):
        return True
    return SymBool(_P_GRID(k)(x.z))


def sym_round(x, k):
    if not isinstance(x, SymReal):
        return builtins.round(x, k)
    c = ctx()
    if getattr(c, "ongrid_digits", None) is not None and k >= c.ongrid_digits:
        # ONGRID mode (stated assumption of the obligation): every value rounded to >= that many digits is on the grid
        return x
    f = _F_RND(k)
    r = f(x.z)
    half = z3.RealVal(str(Fraction(5, 10 ** (k + 1))))
    c.add_axiom(z3.And(r - x.z <= half, x.z - r <= half))
    c.add_axiom(z3.Implies(_P_GRID(k)(x.z), r == x.z))
    c.add_axiom(_P_GRID(k)(r))
    if not c.rnd.get(k):
        c.add_axiom(f(z3.RealVal(0)) == 0)
        c.add_axiom(_P_GRID(k)(z3.RealVal(0)))
        c.rnd[k] = [(z3.RealVal(0), z3.RealVal(0))]
    prev = c.rnd.setdefault(k, [])
    # pairwise monotonicity instances (quadratic): only for the first few terms, always against 0
    for (a0, r0) in (prev if len(prev) <= 16 else prev[:1]):
        c.add_axiom(z3.Implies(a0 <= x.z, r0 <= r))
        c.add_axiom(z3.Implies(x.z <= a0, r <= r0))
    c.rnd[k].append((x.z, r))
    return SymReal(r)


def _register(kind, arg, res):
    ctx().trans.setdefault(kind, []).append((arg, res))


def sym_exp(x):
    if not isinstance(x, (SymReal, SymInt)):
        return _math.exp(x)
    c = ctx()
    t = lift_real(x)
    e = _F_EXP(t)
    c.add_axiom(e > 0)
    c.add_axiom(z3.Implies(t == 0, e == 1))
    c.add_axiom(z3.Implies(t > 0, e > 1))
    c.add_axiom(z3.Implies(t < 0, e < 1))
    c.add_axiom(e >= 1 + t)
    c.add_axiom(_F_LOG(e) == t)
    for (t0, e0) in c.trans.get("exp", []):
        c.add_axiom(z3.Implies(t0 < t, e0 < e))
        c.add_axiom(z3.Implies(t < t0, e < e0))
        c.add_axiom(z3.Implies(t0 + t == 0, e0 * e == 1))
    _register("exp", t, e)
    return SymReal(e)


def sym_log(x):
    if not isinstance(x, (SymReal, SymInt)):
        return _math.log(x)
    c = ctx()
    u = lift_real(x)
    if c.decide(u <= 0):
        raise ValueError("math domain error")
    l = _F_LOG(u)
    c.add_axiom(_F_EXP(l) == u)
    c.add_axiom(z3.Implies(u == 1, l == 0))
    c.add_axiom(z3.Implies(u > 1, l > 0))
    c.add_axiom(z3.Implies(u < 1, l < 0))
    c.add_axiom(l <= u - 1)            # Mathlib: Real.log_le_sub_one_of_pos
    c.add_axiom(l * u >= u - 1)        # Mathlib: Real.one_sub_inv_le_log_of_pos  (1 - 1/u <= ln u, u > 0)
    for (u0, l0) in c.trans.get("log", []):
        c.add_axiom(z3.Implies(u0 < u, l0 < l))
        c.add_axiom(z3.Implies(u < u0, l < l0))
        c.add_axiom(z3.Implies(u0 * u == 1, l0 == -l))
    # ln(1/E) = -t for every known E = exp(t)
    for (t0, e0) in c.trans.get("exp", []):
        c.add_axiom(z3.Implies(u * e0 == 1, l == -t0))
    _register("log", u, l)
    return SymReal(l)


def sym_sqrt(x):
    if not isinstance(x, (SymReal, SymInt)):
        return _math.sqrt(x)
    c = ctx()
    u = lift_real(x)
    if c.decide(u < 0):
        raise ValueError("math domain error")
    s = _F_SQRT(u)
    c.add_axiom(s >= 0)
    c.add_axiom(s * s == u)
    _register("sqrt", u, s)
    return SymReal(s)


def sym_pow(a, b):
    """a ** b.  Integer literal exponents are expanded; the rest is uninterpreted."""
    if not is_sym(a) and not is_sym(b):
        return a ** b
    if not is_sym(b):
        bf = builtins.float(b)
        if bf == int(bf) and abs(bf) <= 40:
            n = int(bf)
            if n == 0:
                return 1.0
            az = lift_real(a)
            r = az
            for _ in range(abs(n) - 1):
                r = r * az
            if n < 0:
                _fork_zero(az)
                r = 1 / r
            return SymReal(r)
        if bf == 0.5:
            return sym_sqrt(a)
    c = ctx()
    az, bz = lift_real(a), lift_real(b)
    p = _F_POW(az, bz)
    if not is_sym(b):
        fr = Fraction(builtins.float(b)).limit_denominator(64)
        if abs(builtins.float(fr) - builtins.float(b)) < 1e-15 and fr.numerator in (1, -1) and 2 <= fr.denominator <= 8:
            # p = a ** (+-1/n):  p ** n == a (resp. 1/a) for a > 0.  Under A1 (floats are reals) the float 1/n stands for the real 1/n: the
            # exponent TERM is the exact fraction, so that the axiom below is literally a theorem of real rpow (lean/Axioms.lean: pow_root_ax)
            bz = z3.Q(fr.numerator, fr.denominator)
            p = _F_POW(az, bz)
            pn = p
            for _ in range(fr.denominator - 1):
                pn = pn * p
            c.add_axiom(z3.Implies(az > 0, z3.And(p > 0, pn == az if fr.numerator == 1 else pn * az == 1)))
    # facts valid for a positive base
    c.add_axiom(z3.Implies(az > 0, p > 0))
    c.add_axiom(z3.Implies(az == 1, p == 1))
    c.add_axiom(z3.Implies(z3.And(az > 0, bz == 0), p == 1))
    c.add_axiom(z3.Implies(bz == 1, p == az))
    c.add_axiom(z3.Implies(z3.And(az > 1, bz > 0), p > 1))
    c.add_axiom(z3.Implies(z3.And(az > 0, az < 1, bz > 0), p < 1))
    for (a0, b0, p0) in c.trans.get("pow", []):
        # same exponent: monotone in the base (b > 0), antitone (b < 0)
        c.add_axiom(z3.Implies(z3.And(b0 == bz, bz > 0, a0 > 0, az > 0, a0 < az), p0 < p))
        c.add_axiom(z3.Implies(z3.And(b0 == bz, bz > 0, a0 > 0, az > 0, az < a0), p < p0))
        # pow(pow(x, p), q) = x when p*q = 1 and x > 0
        c.add_axiom(z3.Implies(z3.And(az == p0, a0 > 0, b0 * bz == 1), p == a0))
    c.trans.setdefault("pow", []).append((az, bz, p))
    return SymReal(p)


# --------------------------------------------------------------------------------------
# ite helpers usable from contracts without forking
# --------------------------------------------------------------------------------------


def ite(c, a, b):
    if isinstance(c, SymBool):
        if isinstance(a, SymBool) or isinstance(b, SymBool):
            return SymBool(z3.If(c.z, to_z3_bool(a), to_z3_bool(b)))
        return SymReal(z3.If(c.z, lift_real(a), lift_real(b)))
    return a if c else b


def smax(*xs):
    if len(xs) == 1:
        xs = tuple(xs[0])
    r = xs[0]
    for x in xs[1:]:
        if _inf_sign(x) < 0 or _inf_sign(r) > 0:
            continue
        if _inf_sign(x) > 0 or _inf_sign(r) < 0:
            r = x
            continue
        if is_sym(r) or is_sym(x):
            r = SymReal(z3.If(lift_real(x) > lift_real(r), lift_real(x), lift_real(r)))
        else:
            r = x if x > r else r
    return r


def smin(*xs):
    if len(xs) == 1:
        xs = tuple(xs[0])
    r = xs[0]
    for x in xs[1:]:
        if _inf_sign(x) > 0 or _inf_sign(r) < 0:
            continue
        if _inf_sign(x) < 0 or _inf_sign(r) > 0:
            r = x
            continue
        if is_sym(r) or is_sym(x):
            r = SymReal(z3.If(lift_real(x) < lift_real(r), lift_real(x), lift_real(r)))
        else:
            r = x if x < r else r
    return r


def And(*xs):
    if len(xs) == 1 and isinstance(xs[0], (list, tuple)):
        xs = tuple(xs[0])
    if any(isinstance(x, SymBool) or z3.is_expr(x) for x in xs):
        return SymBool(z3.And(*[to_z3_bool(x) for x in xs]))
    return all(bool(x) for x in xs)


def Or(*xs):
    if len(xs) == 1 and isinstance(xs[0], (list, tuple)):
        xs = tuple(xs[0])
    if any(isinstance(x, SymBool) or z3.is_expr(x) for x in xs):
        return SymBool(z3.Or(*[to_z3_bool(x) for x in xs]))
    return any(bool(x) for x in xs)


def Not(x):
    if isinstance(x, SymBool):
        return ~x
    return not x


def Implies(a, b):
    return Or(Not(a), b)
